"""E1 - explicit-state breadth-first search over call histories of the real
implementation, with a reference model stepped in lock-step.

A *system* object provides:
    fresh()            -> state (real objects + model); must expose .copyable and .snapshot()
    ops(state)         -> list of JSON-able ops enabled in this state
    step(state, op)    -> list of (sig, msg) problems found on this transition (empty = fine)
    canon(state)       -> hashable canonical form (real data state + model state)
    outcome(state)     -> optional small hashable describing the last observable outcome (vacuity metric)

A state is identified by the history that reaches it; successors are produced
by deep-copying the rebuilt base state (or by replaying the history when live
context managers make it non-copyable).
"""

import itertools
import random

from .common import digest, pmap, Violation, jsonable

_SYSTEM = None
_OPTS = None


def _replay(system, hist):
    st = system.fresh()
    for op in hist:
        system.step(st, op)
    return st


def _expand(hists):
    system, opts = _SYSTEM, _OPTS
    succ = []
    viols = []
    ntrans = 0
    nrej = 0
    outcomes = set()
    local_seen = set()
    dispose = getattr(system, "dispose", None)
    for hist in hists:
        base = _replay(system, hist)
        ops = system.ops(base)
        if opts.get("seed"):
            random.Random(opts["seed"] * 7919 + len(hist)).shuffle(ops)
        for op in ops:
            st = base.snapshot() if base.copyable else _replay(system, hist)
            problems = system.step(st, op)
            ntrans += 1
            if getattr(st, "last_rejected", False):
                nrej += 1
            if hasattr(system, "outcome"):
                outcomes.add(digest(system.outcome(st)))
            if problems:
                for sig, msg in problems:
                    viols.append((sig, msg, hist + [op]))
                if dispose:
                    dispose(st)
                continue            # never expand beyond a violating transition
            k = _key(system, st)
            if dispose:
                dispose(st)
            if k in local_seen:
                continue
            local_seen.add(k)
            succ.append((k, hist + [op]))
        if dispose:
            dispose(base)
    return succ, viols, ntrans, nrej, outcomes


def _key(system, st):
    """State identity for the search: the property module's canonical form, refined by a structural rendering of everything
    reachable from the real object (systems opt in with `deep = True`): two states the hand-written form cannot tell apart are
    still explored separately when the implementation itself can."""
    c = system.canon(st)
    if getattr(system, "deep", False):
        from .harness import deep_state
        return digest((c, deep_state(st.g)))
    return digest(c)


def bfs(system, depth, seed=0, max_states=None, check_snapshot_depth=2, label=""):
    """Level-synchronous BFS. Returns a stats dict and a list of Violation."""
    global _SYSTEM, _OPTS
    _SYSTEM, _OPTS = system, {"seed": seed}
    root = system.fresh()
    seen = {_key(system, root)}
    if hasattr(system, "dispose"):
        system.dispose(root)
    frontier = [[]]
    stats = {"states": 1, "transitions": 0, "rejected_calls": 0, "max_depth": 0,
             "frontier_exhausted": False, "caps_hit": [], "per_level": []}
    violations = []
    outcomes = set()
    samples = []
    for level in range(1, depth + 1):
        if not frontier:
            stats["frontier_exhausted"] = True
            break
        from .common import workers
        chunks = _chunk(frontier, max(1, min(64, len(frontier) // (workers() * 4) or 1)))
        results = pmap(_expand, chunks, chunksize=1)
        nxt = []
        for succ, viols, ntrans, nrej, outs in results:
            stats["transitions"] += ntrans
            stats["rejected_calls"] += nrej
            outcomes |= outs
            for sig, msg, hist in viols:
                violations.append(Violation(sig, msg, {"history": jsonable(hist)}))
            for k, hist in succ:
                if k in seen:
                    continue
                seen.add(k)
                nxt.append(hist)
        stats["states"] = len(seen)
        stats["max_depth"] = level
        stats["per_level"].append({"depth": level, "new_states": len(nxt)})
        if nxt and len(samples) < 6:
            samples.append(jsonable(nxt[len(nxt) // 2]))
        if max_states and len(seen) > max_states:
            stats["caps_hit"].append(f"max_states={max_states} reached at depth {level}; levels <= {level} fully expanded")
            frontier = nxt
            break
        frontier = nxt
    else:
        if not frontier:
            stats["frontier_exhausted"] = True
    stats["distinct_outcomes"] = len(outcomes)
    stats["samples"] = samples
    stats["open_frontier"] = len(frontier)
    return stats, violations


def check_snapshots(system, depth=2, limit=400):
    """Snapshot soundness: a deep-copied successor and a replayed-from-scratch
    successor must be indistinguishable. Returns list of error strings."""
    errs = []
    hists = [[]]
    n = 0
    for _ in range(depth):
        new = []
        for h in hists:
            base = _replay(system, h)
            for op in system.ops(base):
                if n >= limit:
                    return errs
                if not base.copyable:
                    continue
                a = base.snapshot()
                system.step(a, op)
                b = _replay(system, h)
                system.step(b, op)
                n += 1
                if system.canon(a) != system.canon(b):
                    errs.append(f"snapshot/replay mismatch after {h + [op]}")
                new.append(h + [op])
        hists = new[:: max(1, len(new) // 20)]
    return errs


def _chunk(seq, n):
    return [seq[i:i + n] for i in range(0, len(seq), n)]
