"""Fake serial device + per-execution injection of the scheduler shims into the real
gscrib.printrun.printcore and gscrib.writers.printrun_writer modules."""

import sys
import types

from .common import import_gscrib
from . import engine_sched as ES

import_gscrib()
import gscrib.printrun.printcore          # noqa: E402,F401
import gscrib.printrun.device             # noqa: E402,F401
import gscrib.writers.printrun_writer     # noqa: E402,F401

PC = sys.modules["gscrib.printrun.printcore"]
DEVMOD = sys.modules["gscrib.printrun.device"]
PW = sys.modules["gscrib.writers.printrun_writer"]

SHARED_PC = {"clear", "resendfrom", "lineno", "printing", "sentlines", "queueindex", "online", "paused", "mainqueue",
             "priqueue", "stop_read_thread", "stop_send_thread", "read_thread", "send_thread", "print_thread", "printer",
             "writefailures", "sent", "_send_line_numbers"}
SHARED_PW = {"_ack_event", "_device_error", "_current_params", "_reported_params", "_device", "_online_event",
             "_shutdown_requested"}

_LINES_INSTALLED = {"n": None}


def install_line_points():
    if _LINES_INSTALLED["n"] is None:
        _LINES_INSTALLED["n"] = ES.install_line_points([(PC, SHARED_PC), (PW, SHARED_PW)])
    return _LINES_INSTALLED["n"]


class FakeDevice:
    """Serial-flavoured device: no flow control, readline with time-out, write feeds the firmware model."""

    def __init__(self, S, firmware, script=None):
        self.S, self.fw = S, firmware
        self.script = script or {}
        self.flow_control = bool(self.script.get("flow_control"))     # True = socket flavour
        self.force_dtr = None
        self.port = None
        self.baudrate = None
        self._open = False
        self.pending = []        # replies produced by the firmware, not yet on the wire to the host
        self.rx = []             # delivered, readable lines (bytes)
        self.log = []            # interleaved wire log: ('tx', line) / ('rx', line) / ('deliver', line)
        self.writes = 0
        self.lost = False        # connection lost: reads fail / return EOF
        S.env_steps.append(self._env)

    # environment pseudo-thread
    def _env(self):
        if self.pending and not self.lost:
            return [("deliver", self._deliver)]
        return []

    def _deliver(self):
        line = self.pending.pop(0)
        self.rx.append((line + "\n").encode("utf-8"))
        self.log.append(("deliver", line))

    # Device API used by printcore
    @property
    def is_connected(self):
        return self._open

    @property
    def has_flow_control(self):
        return self.flow_control

    def connect(self, port=None, baudrate=None):
        self.S.point("dev.connect", effect=True)
        self.port, self.baudrate = port, baudrate
        self._open = True
        self.pending += self.fw.connect_replies()

    def disconnect(self):
        self.S.point("dev.disconnect", effect=True)
        self._open = False

    def reset(self):
        self.S.point("dev.reset")

    def readline(self):
        self.S.point("dev.readline")
        if self.lost:
            mode = self.script.get("loss_mode", "error")
            if mode == "eof":
                return DEVMOD.READ_EOF
            raise DEVMOD.DeviceError("Unable to read from serial port 'fake'")
        if not self._open:
            raise DEVMOD.DeviceError("Attempted to read when disconnected")
        if not self.rx:
            # nothing arrived within the serial read time-out
            self.S.point("dev.readline:timeout", spin=True)
            if self.lost:
                mode = self.script.get("loss_mode", "error")
                if mode == "eof":
                    return DEVMOD.READ_EOF
                raise DEVMOD.DeviceError("Unable to read from serial port 'fake'")
            if not self.rx:
                return b""
        line = self.rx.pop(0)
        self.S.progress += 1          # consuming a reply is an effect: whoever polls on the reader's flags may run again
        self.log.append(("rx", line.decode("utf-8").rstrip("\n")))
        return line

    def write(self, data):
        self.S.point("dev.write", effect=True)
        if self.lost or not self._open:
            raise DEVMOD.DeviceError("Unable to write to serial port 'fake'")
        text = data.decode("utf-8")
        if not text.endswith("\n") or "\n" in text[:-1]:
            self.log.append(("tx-malformed", text))
        line = text.rstrip("\n")
        self.log.append(("tx", line))
        self.writes += 1
        if self.script.get("lose_at_write") == self.writes:
            self.lost = True
            return
        self.pending += self.fw.receive(line)


class Execution:
    """One scheduled execution: scheduler + shims injected into the real modules."""

    def __init__(self, prefix, firmware, eager_env=False, horizon=8000, script=None, line_points=True, record_points=False):
        self.S = ES.Sched(prefix, eager_env=eager_env, horizon=horizon, record_points=record_points)
        self.shims = ES.make_shims(self.S)
        self.dev = FakeDevice(self.S, firmware, script)
        self.fw = firmware
        self.line_points = line_points
        self.saved = {}

    def __enter__(self):
        sh = self.shims
        devns = types.SimpleNamespace(Device=lambda *a, **k: self.dev, DeviceError=DEVMOD.DeviceError,
                                      READ_EOF=DEVMOD.READ_EOF, READ_EMPTY=DEVMOD.READ_EMPTY)
        self._patch(PC, "threading", sh.threading)
        self._patch(PC, "time", sh.time)
        self._patch(PC, "Queue", sh.Queue)
        self._patch(PC, "device", devns)
        self._patch(PW, "threading", sh.threading)
        self._patch(PW, "time", sh.time)
        self._patch(PW, "signal", types.SimpleNamespace(signal=lambda *a, **k: None, SIGTERM=15, SIGINT=2))
        for fn in (PC.printcore.connect, PC.printcore.disconnect):
            if hasattr(fn, "lock"):
                self.saved[(fn, "lock")] = fn.lock
                fn.lock = sh.Lock()
        if self.line_points:
            install_line_points()
            ES.set_active(self.S)
        return self

    def _patch(self, mod, name, value):
        self.saved[(mod, name)] = getattr(mod, name)
        setattr(mod, name, value)

    def __exit__(self, *a):
        ES.set_active(None)
        for (obj, name), v in self.saved.items():
            setattr(obj, name, v)
        return False

    def run(self, body):
        leaked = self.S.run(body)
        return leaked
