"""KNOWN_FINDINGS.txt: committed, never written at run time.

    open:  property=<id> sig=<signature> <what fails>
    fixed: property=<id> <commit> <what failed>

`open` lines turn a violation with exactly that signature into a
KNOWN-FINDING line; `fixed` lines suppress nothing.
"""

import os
import re

from .common import VERIF

PATH = os.path.join(VERIF, "KNOWN_FINDINGS.txt")
OPEN_RE = re.compile(r"^open:\s+property=(\S+)\s+sig=(\S+)\s+(.*)$")


def load_open():
    out = {}
    if not os.path.exists(PATH):
        return out
    for line in open(PATH, encoding="utf-8"):
        m = OPEN_RE.match(line.strip())
        if m:
            out[(m.group(1), m.group(2))] = m.group(3)
    return out
