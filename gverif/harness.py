"""Driving the real GCodeBuilder from JSON-able op descriptions."""

import copy
import math

from .common import import_gscrib, rf

import_gscrib()
from gscrib import GCodeBuilder, GCodeCore          # noqa: E402
from gscrib.writers import BaseWriter               # noqa: E402
from gscrib.geometry import Point                   # noqa: E402


class Recorder(BaseWriter):
    """Recording writer registered through the public add_writer API."""

    def __init__(self, name="rec"):
        self.name = name
        self.new = []         # chunks not yet consumed by the oracle
        self.count = 0        # total number of write() calls
        self.nbytes = 0
        self.connected = 0
        self.disconnected = 0
        self.flushed = 0

    def connect(self):
        self.connected += 1
        return self

    def disconnect(self, wait=True):
        self.disconnected += 1

    def write(self, statement):
        if not isinstance(statement, (bytes, bytearray)):
            raise TypeError("writer received non-bytes")
        self.new.append(bytes(statement))
        self.count += 1
        self.nbytes += len(statement)

    def flush(self):
        self.flushed += 1

    def take(self):
        out, self.new = self.new, []
        return out


class FaultyWriter(BaseWriter):
    """A second output that fails when armed: its write() raises DeviceError once (the line has already reached every writer
    registered before it)."""

    def __init__(self):
        self.armed = False
        self.failed = 0

    def connect(self):
        return self

    def disconnect(self, wait=True):
        pass

    def flush(self):
        pass

    def write(self, statement):
        if self.armed:
            self.armed = False
            self.failed += 1
            from gscrib.excepts import DeviceError
            raise DeviceError("link to the second output lost")


def mkpoint(v):
    """JSON op arguments use lists; ['P', x, y, z] means a Point object."""
    if isinstance(v, list) and v and v[0] == "P":
        return Point(*[mkpoint(x) for x in v[1:]])
    if isinstance(v, list) and len(v) == 2 and v[0] == "np64":
        import numpy as np
        return np.float64(v[1])
    if isinstance(v, list):
        return [mkpoint(x) for x in v]
    if isinstance(v, str) and v in ("nan", "inf", "-inf"):
        return float(v)
    if isinstance(v, list) and len(v) == 2 and v[0] == "np64":
        import numpy as np
        return np.float64(v[1])
    return v


class Sut:
    """A real builder plus whatever the property module hangs on it."""

    def __init__(self, cfg=None, cls=None):
        cfg = dict(cfg or {})
        cfg.setdefault("line_endings", "\n")
        self.cfg = cfg
        self.g = (cls or GCodeBuilder)(**cfg)
        self.rec = Recorder()
        self.g.add_writer(self.rec)
        self.ctx = []          # live context managers (not deep-copyable)
        self.made = []         # context-manager objects obtained but not entered yet
        self.refs = {}         # caller-owned objects handed to several calls: an argument ["ref", name] passes the same object again
        self.model = None

    @property
    def copyable(self):
        return not self.ctx and not self.made

    def snapshot(self):
        return copy.deepcopy(self)

    def restore_from(self, other):
        """Become `other` (used after running scratch continuations on self)."""
        self.__dict__.update(copy.deepcopy(other).__dict__)

    def call(self, op):
        """Apply one op to the real builder. Returns (exception or None,
        list of emitted byte chunks)."""
        name = op[0]
        args = [self.refs[a[1]] if (isinstance(a, list) and len(a) == 2 and a[0] == "ref") else mkpoint(a) for a in (op[1] if len(op) > 1 else [])]
        kwargs = {k: mkpoint(v) for k, v in (op[2] if len(op) > 2 else {}).items()}
        exc = None
        try:
            if name == "enter":
                target = self.g
                for part in args[0].split("."):
                    target = getattr(target, part)
                cm = target(*args[1:], **kwargs)
                cm.__enter__()
                self.ctx.append(cm)
            elif name == "make":
                # cm = g.current_transform() now, `with cm:` later: whatever the block saves, it saves on entry
                target = self.g
                for part in args[0].split("."):
                    target = getattr(target, part)
                self.made.append(target(*args[1:], **kwargs))
            elif name == "enter-made":
                cm = self.made.pop()
                cm.__enter__()
                self.ctx.append(cm)
            elif name == "exit":
                cm = self.ctx.pop()
                cm.__exit__(None, None, None)
            elif name in ("exit!", "exit!k"):
                # the body of the with-block raised: an ordinary exception, or one that only derives from BaseException
                cm = self.ctx.pop()
                kind = RuntimeError if name == "exit!" else KeyboardInterrupt
                err = kind("body raised")
                try:
                    cm.__exit__(kind, err, None)
                except kind as e:
                    if e is not err:
                        raise
            else:
                target = self.g
                for part in name.split("."):
                    target = getattr(target, part)
                target(*args, **kwargs)
        except Exception as e:       # noqa: BLE001 - the oracle classifies it
            exc = e
        return exc, self.rec.take()


def poke_formatter(fmt):
    """Setter calls the formatter has to reject. A rejected call configures nothing: what was configured last stays in force."""
    for name, args in (("set_comment_symbols", ("",)), ("set_comment_symbols", ("   ",)), ("set_decimal_places", (-1,)),
                       ("set_axis_label", ("x", " ")), ("set_axis_label", ("q", "A"))):
        try:
            getattr(fmt, name)(*args)
        except Exception:                  # noqa: BLE001  (ValueError / TypeCheckError; acceptance is not this check's business)
            pass


def decode_lines(chunks, ending="\n"):
    """Each chunk the writer received must be exactly one terminated line."""
    lines = []
    for c in chunks:
        s = c.decode("utf-8")
        lines.append(s)
    return lines


def pt(p):
    return None if p is None else tuple(rf(c) for c in p)


def is_nan(x):
    return isinstance(x, float) and math.isnan(x)


def deep_state(obj, skip=("_writers", "_logger", "_lock")):
    """A canonical, hashable rendering of *everything* reachable from a real object (its __dict__ / __slots__, recursively),
    so that state the hand-written canonical forms do not know about (a new cache, a flag) still separates two states.
    Floats are rounded to 9 decimals; writers, loggers and locks are skipped; cycles are cut."""
    import enum
    import numpy as _np
    seen = {}

    def walk(o, depth):
        if o is None or isinstance(o, (bool, int, str, bytes)):
            return o if not isinstance(o, enum.Enum) else str(o)
        if isinstance(o, enum.Enum):
            return str(o)
        if isinstance(o, float):
            return "nan" if o != o else round(o, 9) + 0.0
        if isinstance(o, _np.generic):
            return walk(o.item(), depth)
        if isinstance(o, _np.ndarray):
            return ("nd", o.shape, tuple(walk(float(v), depth) for v in o.ravel()[:64]))
        if depth > 8:
            return "..."
        i = id(o)
        if i in seen:
            return ("ref", seen[i])
        seen[i] = len(seen)
        if isinstance(o, dict):
            return ("d",) + tuple(sorted(((repr(walk(k, depth + 1)), walk(v, depth + 1)) for k, v in o.items()), key=lambda kv: kv[0]))
        if isinstance(o, (list, tuple)):
            return ("l",) + tuple(walk(v, depth + 1) for v in o)
        if isinstance(o, (set, frozenset)):
            return ("s",) + tuple(sorted(repr(walk(v, depth + 1)) for v in o))
        if callable(o) and not hasattr(o, "__dict__"):
            return ("fn", getattr(o, "__qualname__", type(o).__name__))
        if callable(o) and hasattr(o, "__qualname__"):
            return ("fn", o.__qualname__)
        names = []
        for klass in type(o).__mro__:
            names += list(getattr(klass, "__slots__", ()) or ())
        if hasattr(o, "__dict__"):
            names += list(vars(o))
        out = [type(o).__name__]
        for n in sorted(set(names)):
            if n in skip or n.startswith("__"):
                continue
            try:
                v = getattr(o, n)
            except AttributeError:
                continue
            out.append((n, walk(v, depth + 1)))
        return tuple(out)
    return walk(obj, 0)
