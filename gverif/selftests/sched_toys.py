"""E2 self tests: toy systems with seeded concurrency bugs. The scheduler must find the failing schedule within
the deviation bound, must not fail the correct twin, and must replay a recorded schedule identically."""

from .. import engine_sched as ES


def _lost_update(buggy):
    """Two threads increment a shared counter; the buggy twin reads, yields, writes (lost update)."""
    failures, execs = [], [0]

    def run_one(prefix):
        S = ES.Sched(prefix)
        sh = ES.make_shims(S)
        state = {"n": 0}
        lock = sh.Lock()

        def worker():
            if buggy:
                v = state["n"]
                S.point("between-read-and-write")
                state["n"] = v + 1
            else:
                with lock:
                    v = state["n"]
                    S.point("between-read-and-write")
                    state["n"] = v + 1

        def main():
            ts = [sh.threading.Thread(target=worker, name=f"w{i}") for i in range(2)]
            for t in ts:
                t.start()
            for t in ts:
                t.join()
        S.run(main)
        execs[0] += 1
        bad = S.status != "done" or state["n"] != 2
        if bad:
            failures.append((list(prefix), state["n"], S.status))
        return S.trace, bad
    ES.explore(run_one, 2)
    return failures, execs[0]


def _stale_ack(buggy):
    """Writer waits for an ack event; the buggy twin clears the event after sending (check-then-act):
    an ack arriving in between is lost and the writer hangs."""
    failures, execs = [], [0]

    def run_one(prefix):
        S = ES.Sched(prefix)
        sh = ES.make_shims(S)
        ack = sh.Event()
        q = sh.Queue()
        done = {"ok": False}

        def device():
            q.get(True, 0.1) if False else None
            while True:
                try:
                    q.get(True, 0.1)
                    break
                except Exception:   # noqa: BLE001
                    continue
            ack.set()

        def main():
            d = sh.threading.Thread(target=device, name="device")
            d.start()
            if buggy:
                q.put_nowait("cmd")
                ack.clear()
            else:
                ack.clear()
                q.put_nowait("cmd")
            ack.wait()
            done["ok"] = True
            d.join()
        S.run(main)
        execs[0] += 1
        bad = S.status != "done" or not done["ok"]
        if bad:
            failures.append((list(prefix), S.status))
        return S.trace, bad
    ES.explore(run_one, 2)
    return failures, execs[0]


def run():
    out = []
    for name, fn in (("lost update", _lost_update), ("stale ack / check-then-act", _stale_ack)):
        for buggy in (False, True):
            failures, n = fn(buggy)
            ok = bool(failures) == buggy
            out.append((f"E2 toy {name} buggy={buggy}", ok, f"executions={n} failing={len(failures)}" + (f" first={failures[0]}" if failures else "")))
    # replay determinism
    f1, _ = _lost_update(True)
    f2, _ = _lost_update(True)
    out.append(("E2 replay determinism", f1 == f2, f"{len(f1)} failing schedules reproduced identically"))
    return out
