"""Toy systems with seeded bugs, one per engine."""


def _e1_toy():
    """A counter with a reference model; buggy twin forgets to reset."""
    from ..engine_opseq import bfs

    class State:
        copyable = True

        def __init__(self):
            self.real = 0
            self.model = 0
            self.last_rejected = False

        def snapshot(self):
            import copy
            return copy.deepcopy(self)

    class Toy:
        def __init__(self, buggy):
            self.buggy = buggy

        def fresh(self):
            return State()

        def ops(self, st):
            return [["inc"], ["reset"], ["dec"]]

        def step(self, st, op):
            if op[0] == "inc":
                st.real += 1; st.model += 1
            elif op[0] == "dec":
                st.real -= 1; st.model -= 1
            else:
                st.model = 0
                # seeded bug: reset is lost only when the counter is exactly 2
                st.real = st.real if (self.buggy and st.real == 2) else 0
            return [("mismatch", f"{st.real}!={st.model}")] if st.real != st.model else []

        def canon(self, st):
            return (st.real, st.model)

    import gverif.common as c
    saved = c.workers
    out = []
    for buggy in (False, True):
        stats, viols = bfs(Toy(buggy), 4)
        ok = (len(viols) > 0) == buggy
        out.append((f"E1 toy counter buggy={buggy}", ok, f"states={stats['states']} violations={len(viols)}"))
    return out


def run_all():
    out = []
    out += _e1_toy()
    try:
        from .sched_toys import run as sched_run
        out += sched_run()
    except ImportError:
        pass
    try:
        from .choice_toys import run as choice_run
        out += choice_run()
    except ImportError:
        pass
    return out
