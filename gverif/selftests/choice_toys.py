"""E3 self test: the choice-tree enumerator visits every leaf exactly once and honours the deviation bound."""

from ..engine_choice import explore


def run():
    def harness(ch):
        return (ch.choose(3), ch.choose(2), ch.choose(2))
    leaves = [r for _, r in explore(harness)]
    ok1 = len(leaves) == 12 and len(set(leaves)) == 12
    bounded = [r for _, r in explore(harness, max_deviations=1)]
    ok2 = sorted(bounded) == sorted([(0, 0, 0), (1, 0, 0), (2, 0, 0), (0, 1, 0), (0, 0, 1)])

    def buggy(ch):            # a "parser" that fails only for one particular combination of answers
        a, b, c = ch.choose(4), ch.choose(4), ch.choose(4)
        return not (a == 3 and b == 1 and c == 2)
    found = [c for c, r in explore(buggy) if not r]
    ok3 = found == [[3, 1, 2]]
    return [("E3 enumerates all leaves once", ok1, f"{len(leaves)} leaves"), ("E3 deviation bound", ok2, f"{len(bounded)} leaves at bound 1"),
            ("E3 finds the single failing leaf", ok3, str(found))]
