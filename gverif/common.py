"""Shared plumbing: environment pinning, recording writer, violations,
parallel map."""

import hashlib
import json
import math
import os
import sys
import time

REPO = os.environ.get("GVERIF_REPO", "/repo")
VERIF = os.path.dirname(os.path.dirname(os.path.abspath(__file__)))


def pin_environment():
    """Re-exec once with a pinned environment so that hashing order and
    byte-code caches cannot differ between runs."""
    if os.environ.get("GVERIF_PINNED") == "1":
        return
    env = dict(os.environ)
    env["GVERIF_PINNED"] = "1"
    env["PYTHONHASHSEED"] = "0"
    env["PYTHONDONTWRITEBYTECODE"] = "1"
    env["GSCRIB_VERIF"] = "1"
    env["OMP_NUM_THREADS"] = "1"
    env["OPENBLAS_NUM_THREADS"] = "1"
    env["MKL_NUM_THREADS"] = "1"
    env["PYTHONPATH"] = REPO + os.pathsep + VERIF + os.pathsep + env.get("PYTHONPATH", "")
    os.execve(sys.executable, [sys.executable, "-m", "gverif"] + sys.argv[1:], env)


def import_gscrib():
    """Import gscrib from the working tree (never from a stale copy)."""
    if REPO not in sys.path:
        sys.path.insert(0, REPO)
    import logging
    import warnings
    logging.disable(logging.CRITICAL)
    warnings.filterwarnings("ignore")
    import gscrib
    here = os.path.realpath(os.path.dirname(gscrib.__file__))
    want = os.path.realpath(os.path.join(REPO, "gscrib"))
    if here != want:
        raise RuntimeError(f"gscrib imported from {here}, expected {want}")
    return gscrib


def digest(obj):
    return hashlib.blake2b(repr(obj).encode("utf-8", "backslashreplace"), digest_size=12).digest()


def rf(x, nd=9):
    """Canonical float for state hashing."""
    if x is None:
        return None
    try:
        x = float(x)
    except Exception:
        return repr(x)
    if math.isnan(x):
        return "nan"
    if math.isinf(x):
        return "inf" if x > 0 else "-inf"
    r = round(x, nd)
    return 0.0 if r == 0 else r


class Violation:
    __slots__ = ("sig", "msg", "replay")

    def __init__(self, sig, msg, replay):
        self.sig = sig
        self.msg = msg
        self.replay = replay

    def to_json(self):
        return {"sig": self.sig, "msg": self.msg, "replay": self.replay}


class Result:
    """What a property run returns to the CLI."""

    def __init__(self, level):
        self.level = level
        self.coverage = {}
        self.assumptions = []
        self.violations = []      # list[Violation]
        self.harness_errors = []  # list[str] -> exit 2

    def add(self, v):
        self.violations.append(v)


def jsonable(o):
    if isinstance(o, (str, int, bool)) or o is None:
        return o
    if isinstance(o, float):
        if math.isnan(o) or math.isinf(o):
            return repr(o)
        return o
    if isinstance(o, bytes):
        return o.decode("utf-8", "backslashreplace")
    if isinstance(o, dict):
        return {str(k): jsonable(v) for k, v in o.items()}
    if isinstance(o, (list, tuple, set, frozenset)):
        return [jsonable(v) for v in o]
    try:
        import numpy as np
        if isinstance(o, np.generic):
            return jsonable(o.item())
    except Exception:
        pass
    return repr(o)


def workers():
    try:
        n = int(os.environ.get("GVERIF_WORKERS", "0"))
    except ValueError:
        n = 0
    if n <= 0:
        n = min(16, os.cpu_count() or 1)
    return n


def pmap(fn, items, chunksize=None, nworkers=None):
    """Deterministic parallel map (fork). Results in input order."""
    items = list(items)
    n = nworkers or workers()
    if n <= 1 or len(items) <= 1:
        return [fn(x) for x in items]
    import multiprocessing as mp
    ctx = mp.get_context("fork")
    if chunksize is None:
        chunksize = max(1, len(items) // (n * 8))
    with ctx.Pool(n) as pool:
        out, t0, last = [], time.time(), time.time()
        for r in pool.imap(fn, items, chunksize=chunksize):
            out.append(r)
            if time.time() - last > 120:          # long runs: a heartbeat on stderr (stdout carries the verdict lines only)
                last = time.time()
                print(f"[gverif] {len(out)}/{len(items)} work items done after {int(last - t0)} s", file=sys.stderr, flush=True)
        return out


class Timer:
    def __init__(self):
        self.t0 = time.time()

    def s(self):
        return round(time.time() - self.t0, 3)


import contextlib as _contextlib
import logging as _logging


@_contextlib.contextmanager
def debug_logging():
    """The application has switched the library's loggers to DEBUG (records are swallowed by a null handler)."""
    lg = _logging.getLogger("gscrib")
    old_level, old_prop = lg.level, lg.propagate
    h = _logging.NullHandler()
    lg.addHandler(h)
    lg.setLevel(_logging.DEBUG)
    lg.propagate = False
    old_disable = _logging.root.manager.disable
    _logging.disable(_logging.NOTSET)          # import_gscrib() silences logging globally for the other checks
    try:
        yield
    finally:
        _logging.disable(old_disable)
        lg.setLevel(old_level)
        lg.propagate = old_prop
        lg.removeHandler(h)
