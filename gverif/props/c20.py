"""C20 - Move hooks see the true move and extrusion matches path length (E1)."""

import math

from ._base import BuilderSystem, run_configs, replay_history
from ..harness import pt
from ..common import rf, import_gscrib

import_gscrib()
from gscrib.hooks.extrusion_hook import extrusion_hook   # noqa: E402

GEOM = {"ext1": (0.2, 0.4, 1.75), "ext2": (0.6, 0.4, 2.85)}          # (layer, nozzle, filament); ext2: a layer taller than the nozzle is wide


def k_of(name):
    layer, nozzle, fil = GEOM[name]
    return nozzle * layer / (math.pi * (fil / 2) ** 2)


class Hook:
    """Recording hook (deep-copyable: the shared log travels with the Sut)."""

    def __init__(self, name, log, inner=None, add=None, fresh=False, keep=None):
        self.name, self.log, self.inner, self.add, self.fresh, self.keep = name, log, inner, add, fresh, keep

    def __call__(self, origin, target, params, state):
        before = {k: v for k, v in params.items()}
        if self.fresh:
            params = type(params)(params)      # a hook may return a new mapping instead of mutating its argument
        if self.inner is not None:
            params = self.inner(origin, target, params, state)
        if self.keep is not None:
            # a filter: hands back a new mapping holding only the listed words (possibly none at all)
            params = type(params)({k: v for k, v in params.items() if k.upper() in self.keep})
        if self.add:
            params.update(**self.add)
        self.log.append((self.name, tuple(origin), tuple(target), before, {k: v for k, v in params.items()}))
        return params


class Extruder:
    """An application object whose *method* is registered as a hook: every attribute access yields a new, equal bound method."""

    def __init__(self, log):
        self.inner = Hook("meth", log, add={"P": 3})

    def on_move(self, origin, target, params, state):
        return self.inner(origin, target, params, state)


class C20System(BuilderSystem):
    deep = True

    cfg = {"decimal_places": 5}

    def fresh(self):
        st = super().fresh()
        # hooks are arbitrary callables (closures): a deep copy would share whatever they keep to themselves, so every
        # state of this search is rebuilt by replaying its history on fresh objects
        st.__class__ = type("ReplayOnlySut", (st.__class__,), {"copyable": property(lambda self: False)})
        return st

    def setup(self, st):
        g = st.g
        g.set_resolution(1.0)
        if getattr(self, "unknown_start", False):
            g.set_axis(E=0)           # the usual first line of a print: no axis position is known yet
        else:
            g.set_axis(x=1, y=2, z=0, E=0)
        st.log = []
        st.hooks = {
            "rec": Hook("rec", st.log),
            "addF": Hook("addF", st.log, add={"F": 1500}),
            "addQ": Hook("addQ", st.log, add={"Q": 7}, fresh=True),
            "onlyF": Hook("onlyF", st.log, keep=("F",)),
            # the docstring example of add_hook: a hook that brings the requested feed rate into the machine's range
            "clampF": Hook("clampF", st.log, inner=lambda o, t, p, s: (p.update(F=min(max(p.get("F"), 100), 3000)) if p.get("F") is not None else None) or p),
            "zeroFS": Hook("zeroFS", st.log, add={"F": 0, "S": 0}),           # a hook that stops feed and power (laser off while travelling)
            "ext1": Hook("ext1", st.log, inner=extrusion_hook(*GEOM["ext1"])),
            "ext2": Hook("ext2", st.log, inner=extrusion_hook(*GEOM["ext2"])),
        }
        st.extruder = Extruder(st.log)
        st.registered = []
        st.ctx_hooks = []
        st.e_mode = "absolute"
        st.e_last = 0.0
        st.e_exact = 0.0          # exact running total since the last E reset (None: not determined any more)
        if getattr(self, "limits", False):
            g.set_bounds("feed-rate", 100, 3000)
        if not getattr(self, "unknown_start", False):
            st.machine.feed_words([("G", "92"), ("X", "1"), ("Y", "2"), ("Z", "0"), ("E", "0")])

    def ops(self, st):
        rel = st.g.distance_mode.is_relative
        p = st.g.position.resolve()

        def tgt(dx, dy, dz=None):
            if rel:
                return [dx, dy] if dz is None else [dx, dy, dz]
            return [p.x + dx, p.y + dy] if dz is None else [p.x + dx, p.y + dy, p.z + dz]
        ops = []
        for h in getattr(self, "hook_names", ("rec", "addF", "ext1", "ext2", "addQ", "onlyF", "meth")):
            ops.append(["add_hook", [h]])
            ops.append(["remove_hook", [h]])
        ops += [["move", [], {"x": 3.0}], ["move", [], {"x": 1.0, "y": -1.0, "z": 0.5}], ["move", [], {"y": 2.5, "F": 900}],
                ["move", [], {"z": 1.0}], ["move", [], {"x": 2.0, "y": 1.0, "E": 0.5}],      # the caller passes an E of its own
                ["rapid", [], {"x": 0.0, "y": 4.0}], ["move_absolute", [], {"x": 5.0, "y": 1.0}], ["rapid_absolute", [], {"x": 2.0}],
                ["trace.polyline", [[tgt(2, 0), tgt(2, 2, 1)] if not rel else [[2, 0], [0, 2, 1]]]],
                ["trace.arc", [tgt(2, 2), [2, 0]]],
                ["set_distance_mode", ["relative"]], ["set_distance_mode", ["absolute"]],
                ["set_extrusion_mode", ["relative"]], ["set_extrusion_mode", ["absolute"]],
                ["set_axis", [], {"E": 0}], ["set_axis", [], {"E": 2.5}]]
        if getattr(self, "state_words", False):
            # the F/S family: moves that carry F and S words of their own, no paths and no extrusion bookkeeping
            ops = [o for o in ops if not o[0].startswith("trace.") and o[0] not in ("set_extrusion_mode", "set_axis", "move_absolute", "rapid_absolute")]
            ops += [["move", [], {"x": 1.5, "S": 40}], ["move", [], {"y": -1.0, "F": 600, "S": 0}]]
        if getattr(self, "limits", False):
            # feed-rate limits in force (set in setup): moves asking for a feed rate outside them, which a hook may bring back inside
            ops = [o for o in ops if not o[0].startswith("trace.") and o[0] not in ("set_extrusion_mode", "set_axis", "move_absolute", "rapid_absolute")]
            ops += [["move", [], {"x": 1.5, "F": 9000}], ["move", [], {"y": -1.0, "F": 50}], ["move", [], {"x": 2.0, "F": 3000}]]
        if getattr(self, "unknown_start", False):
            # calls after which some axis position is unknown to the builder (hooks are handed 0 for such an axis, never None)
            ops = [o for o in ops if not o[0].startswith("trace.") and o[0] not in ("move_absolute", "rapid_absolute")]
            ops += [["probe", ["towards"], {"z": -1.0}], ["auto_home", [], {"x": 0}], ["auto_home", [], {}]]
        if len(st.ctx) < 1:
            ops.append(["enter", ["move_hook", "rec"]])
            ops.append(["enter", ["move_hook", "ext1"]])
        if st.ctx:
            ops.append(["exit"])
            ops.append(["exit!"])
            ops.append(["exit!k"])
        return ops

    def step(self, st, op):
        problems = []
        g, m = st.g, st.machine
        name = op[0]
        del st.log[:]
        # --- model of the registry
        if name in ("add_hook", "remove_hook"):
            h = st.extruder.on_move if op[1][0] == "meth" else st.hooks[op[1][0]]      # a fresh bound method object every time
            getattr(g, name)(h)
            st.last_exc, st.last_rejected, st.last_lines = None, False, []
            hn = op[1][0]
            if name == "add_hook" and hn not in st.registered:
                st.registered.append(hn)
            if name == "remove_hook" and hn in st.registered:
                st.registered.remove(hn)
            return problems
        if name == "enter":
            hn = op[1][1]
            real = ["enter", ["move_hook", st.hooks[hn]]]
            cm = g.move_hook(st.hooks[hn])
            cm.__enter__()
            st.ctx.append(cm)
            st.ctx_hooks.append(hn)
            if hn not in st.registered:
                st.registered.append(hn)
            st.last_exc, st.last_rejected, st.last_lines = None, False, []
            return problems
        if name in ("exit", "exit!", "exit!k"):
            exc, chunks = st.call(op)
            hn = st.ctx_hooks.pop()
            if hn in st.registered:
                st.registered.remove(hn)
            st.last_exc, st.last_rejected, st.last_lines = exc, exc is not None, []
            return problems
        pre = {a: m.pos[a] for a in ("X", "Y", "Z")}
        st.unknown_axes = {a for a in ("X", "Y", "Z") if not m.known[a]}
        exc, chunks = self.apply(st, op)
        nrel0 = dict(m.rel_steps)
        self.feed(st, chunks, problems)
        if getattr(self, "limits", False) and name == "move":
            # what the hooks (known to this check) make of the requested feed rate decides whether the move is legal
            f = op[2].get("F") if len(op) > 2 else None
            for hn in st.registered:
                if hn == "clampF" and f is not None:
                    f = min(max(f, 100), 3000)
                elif hn == "addF":
                    f = 1500
            legal = f is None or 100 <= f <= 3000
            if exc is not None and not legal and isinstance(exc, ValueError):
                return problems
            if exc is None and not legal:
                problems.append(("feed-rate-outside-limits-accepted", f"{op} with hooks {st.registered}: final F {f} is outside [100, 3000] but lines {st.last_lines} were emitted"))
                return problems
            if exc is not None:
                problems.append(("legal-move-refused", f"{op} raised {exc!r} although the hooks {st.registered} bring the feed rate to {f}, inside [100, 3000]"))
                return problems
        if exc is not None:
            problems.append((f"{name}-raised", f"{op} raised {exc!r} with hooks {st.registered}"))
            return problems
        if name == "set_extrusion_mode":
            st.e_mode = op[1][0]
            st.e_exact = None     # the total is only followed between an E reset and the next mode switch
        # walk the emitted lines
        unit = 0.5e-5
        log = list(st.log)
        li = 0
        cur = dict(pre)
        for block, info in zip(st.last_lines, st.last_infos):
            kind = info["kind"]
            if kind == "G92":
                if "E" in info["others"]:
                    st.e_last = info["others"]["E"]
                    st.e_exact = float(op[2]["E"]) if (len(op) > 2 and "E" in op[2]) else None      # the exact value the caller reset E to
                continue
            if kind not in ("G0", "G1"):
                continue
            before = dict(cur)
            for ax in ("X", "Y", "Z"):
                if info["target"].get(ax) is not None:
                    cur[ax] = info["target"][ax]
            if kind == "G0":
                if "E" in info["others"]:
                    st.e_last = info["others"]["E"]
                continue
            budget = (max(m.rel_steps.values()) + 2) * unit + 1e-9
            followed = False
            calls = log[li: li + len(st.registered)]
            li += len(st.registered)
            names = [c[0] for c in calls]
            if names != st.registered:
                problems.append(("hook-calls-per-move", f"{op}: line {block!r}: hooks called {names}, registered {st.registered}"))
                break
            # each hook works on what the previous one returned
            for a, b in zip(calls, calls[1:]):
                got = {k.upper(): v for k, v in b[3].items() if v is not None}
                want = {k.upper(): v for k, v in a[4].items() if v is not None}
                if got != want:
                    problems.append(("hook-chain-broken", f"{op}: line {block!r}: hook {b[0]} received {got}, but the previous hook {a[0]} returned {want}"))
            for c in calls:
                o, t = c[1], c[2]
                bo = [before[a] for a in ("X", "Y", "Z")]
                bt = [cur[a] for a in ("X", "Y", "Z")]
                if any(v is None for v in tuple(o) + tuple(t)):
                    problems.append(("hook-handed-unknown-coordinate", f"{op}: line {block!r}: hook {c[0]} got origin {o} target {t}"))
                    continue
                unknown = getattr(st, "unknown_axes", set())
                if unknown:
                    # axes the machine position of which is unknown (never set, probed, homed): only numbers are demanded
                    o = [bo[i] if a in unknown else o[i] for i, a in enumerate(("X", "Y", "Z"))]
                    t = [bt[i] if (a in unknown and info["target"].get(a) is None) else t[i] for i, a in enumerate(("X", "Y", "Z"))]
                if any(abs(o[i] - bo[i]) > budget for i in range(3)):
                    problems.append(("hook-origin-wrong", f"{op}: line {block!r}: hook {c[0]} got origin {o}, machine was at {bo}"))
                if any(abs(t[i] - bt[i]) > budget for i in range(3)):
                    problems.append(("hook-target-wrong", f"{op}: line {block!r}: hook {c[0]} got target {t}, machine goes to {bt}"))
            # emitted + remembered parameters are the last hook's
            if calls:
                final = {k.upper(): v for k, v in calls[-1][4].items() if k.upper() not in ("X", "Y", "Z") and v is not None}
                emitted = {k: v for k, v in info["others"].items() if k not in ("X", "Y", "Z")}
                for k, v in final.items():
                    if k not in emitted or abs(emitted[k] - float(v)) > unit + 1e-9:
                        problems.append(("hook-params-not-emitted", f"{op}: line {block!r}: last hook returned {k}={v}, emitted {emitted}"))
                for k in emitted:
                    if k not in final:
                        problems.append(("emitted-param-not-from-hooks", f"{op}: line {block!r}: {k} emitted but last hook returned {final}"))
            # extrusion clause (exactly one extrusion hook, and it is the last one to touch E)
            ext = [h for h in st.registered if h.startswith("ext")]
            if len(ext) == 1 and "E" in info["others"] and not ({"X", "Y"} & getattr(st, "unknown_axes", set())):
                length = math.hypot(cur["X"] - before["X"], cur["Y"] - before["Y"])
                amount = k_of(ext[0]) * length
                want = amount if st.e_mode == "relative" else st.e_last + amount
                # absolute mode: the builder adds to its exact running total, the check to the previous *emitted* (rounded) total
                tolE = (2 if st.e_mode == 'absolute' else 1) * unit * 1.001 + k_of(ext[0]) * 4 * budget + 1e-9
                # running total since the last E reset, from the exact origin/target the hook itself was handed: the emitted total
                # is that sum rounded once, however many moves went into it (rounding the remembered total would accumulate)
                if st.e_mode == "absolute" and getattr(st, "e_exact", None) is not None:
                    hc = next((c for c in calls if c[0] == ext[0]), None)
                    if hc is not None and not any(v is None for v in tuple(hc[1]) + tuple(hc[2])):
                        st.e_exact += k_of(ext[0]) * math.hypot(float(hc[2][0]) - float(hc[1][0]), float(hc[2][1]) - float(hc[1][1]))
                        followed = True
                        if abs(info["others"]["E"] - st.e_exact) > unit * 1.001 + 1e-9:
                            problems.append(("extrusion-total-drifts", f"{op}: line {block!r}: E{info['others']['E']} but the exact running total since the last E reset is {st.e_exact!r}"))
                    else:
                        st.e_exact = None
                if abs(info["others"]["E"] - want) > tolE:
                    problems.append((f"extrusion-amount-wrong-{st.e_mode}", f"{op}: line {block!r}: E{info['others']['E']} but {k_of(ext[0]):.6f} x XY length {length:.6f} "
                                     f"{'+ previous total ' + repr(st.e_last) if st.e_mode == 'absolute' else ''} = {want:.6f}"))
            if "E" in info["others"]:
                st.e_last = info["others"]["E"]
                if not followed:
                    st.e_exact = None         # an E word this check did not account for: the total is not followed any further
        if not problems and li != len(log):
            problems.append(("extra-hook-calls", f"{op}: {len(log)} hook calls for {li} expected (lines {st.last_lines}, registered {st.registered})"))
        # remembered parameters
        if not problems and st.last_infos:
            last = [i for i in st.last_infos if i["kind"] in ("G0", "G1", "G92")]
            if last:
                for k, v in last[-1]["others"].items():
                    if k in ("X", "Y", "Z"):
                        continue
                    got = g.get_parameter(k)
                    if got is None or abs(float(got) - v) > unit + 1e-9:
                        problems.append(("parameter-not-remembered", f"{op}: emitted {k}={v} but get_parameter({k!r}) = {got!r}"))
                    # feed rate and power are also remembered by the state object
                    if last[-1]["kind"] != "G92" and k in ("F", "S"):
                        got = g.state.feed_rate if k == "F" else g.state.tool_power
                        if got is None or abs(float(got) - v) > unit + 1e-9:
                            problems.append(("parameter-not-remembered-by-state", f"{op}: emitted {k}={v} but state reports {got!r}"))
        return problems

    def canon(self, st):
        g, m = st.g, st.machine
        real_hooks = tuple(getattr(h, "name", "?") for h in getattr(g, "_hooks", ()))     # the builder's own registry (no public getter)
        return (pt(g.position), str(g.distance_mode), str(g.state.extrusion_mode), tuple(st.registered), tuple(st.ctx_hooks), real_hooks,
                rf(g.get_parameter("E")), rf(g.get_parameter("F")), rf(st.e_last), st.e_mode,
                tuple(rf(m.pos[a]) for a in ("X", "Y", "Z")), m.relative)

    def outcome(self, st):
        return (tuple(st.last_lines), tuple(c[0] for c in st.log))


RULE = ("BFS over histories of add_hook/remove_hook (recording hook, F-adding hook, custom-word hook, two extrusion_hook geometries), move_hook contexts, moves, rapids, "
        "bypass moves, trace.polyline, trace.arc, distance- and extrusion-mode switches and E resets on the real GCodeBuilder (start position (1,2,0)); per emitted G1: exactly one call "
        "of every registered hook in registration order with origin/target equal to the interpreter's machine position before/after (absolute in both modes), none for G0; emitted and "
        "remembered non-axis words equal the last hook's return value; with one extrusion hook E equals k x XY length per move (relative) or previous total + k x length (absolute)")
ASSUMPTIONS = ["no transform active", "extrusion clause checked when exactly one extrusion hook is registered and the call itself passes no E word",
               "budget: 0.5e-5 per emitted word, accumulated over relative increments"]


def systems(tier):
    unknown = C20System()
    unknown.unknown_start = True
    unknown.hook_names = ("rec", "ext1", "addQ", "meth")
    a, b = C20System(), C20System()
    a.hook_names = ("rec", "addF", "ext1", "ext2")                 # in-place hooks and the bundled extrusion hook
    b.hook_names = ("ext1", "addQ", "onlyF", "meth")               # hooks returning new mappings, a filter, a bound method
    c = C20System()
    c.hook_names = ("addF", "zeroFS")
    c.state_words = True
    lim = C20System()
    lim.hook_names = ("rec", "clampF", "addF")
    lim.limits = True
    if tier == "quick":
        return [("hooks", a, 4, None), ("hooks-feed-and-power", c, 3, None), ("hooks-feed-limits", lim, 3, None), ("hooks-new-mappings", b, 3, None), ("hooks-unknown-position", unknown, 3, None)]
    return [("hooks", a, 5, None), ("hooks-feed-and-power", c, 5, None), ("hooks-feed-limits", lim, 4, None), ("hooks-new-mappings", b, 5, None), ("hooks-all", C20System(), 4, None),
            ("hooks-unknown-position", unknown, 4, None)]


def run(tier, seed):
    return run_configs("model_checking", systems(tier), tier, seed, RULE, ASSUMPTIONS, snapshot_check=False)


def replay(body):
    return replay_history(systems("thorough")[0][1], body)
