"""C17 - Socket input is split into lines independently of packet boundaries (E3, exhaustive)."""

import itertools
import sys
import types

from ..common import Result, Violation, import_gscrib, pmap, digest

import_gscrib()
import gscrib.printrun.device   # noqa: E402,F401
DEV = sys.modules["gscrib.printrun.device"]


class FakeFile:
    """Scripted socket file: read() pops the next scripted answer."""

    def __init__(self, script, log):
        self.script = list(script)       # items: bytes (data), None (no data yet); exhausted -> b'' (EOF)
        self.log = log

    def read(self, n):
        # a socket file refuses every read after one read timed out (SocketIO); a read only times out when the socket is in
        # timeout mode (settimeout(t > 0)) and no data is there - in non-blocking mode it answers None
        if getattr(self, "timed_out", False):
            raise OSError("cannot read from timed out object")
        if self.script and (self.script[0] is None or isinstance(self.script[0], tuple)) and (self.sock_timeout() or 0) > 0:
            self.script.pop(0)
            self.timed_out = True
            self.log.append(("read", "timeout"))
            import socket as _s
            raise _s.timeout("timed out")
        if not self.script:
            self.log.append(("read", "EOF"))
            return b""
        item = self.script.pop(0)
        if item is None or isinstance(item, tuple):
            self.log.append(("read", None))
            self.pending_select = item[1] if isinstance(item, tuple) else False
            return None
        if len(item) > n:
            raise AssertionError(f"harness: scripted chunk of {len(item)} bytes for read({n})")
        self.log.append(("read", len(item)))
        return item

    def sock_timeout(self):
        h = getattr(self, "holder", None)
        return h.get("timeout") if h else None

    def write(self, data):
        if getattr(self, "fail_writes", False):
            raise BrokenPipeError("peer closed")
        cb = getattr(self, "while_blocked", None)
        if cb is not None:
            # the send buffer is full: this write waits, and the other thread of the host (the reader) runs meanwhile
            self.while_blocked = None
            cb()
        return len(data)

    def flush(self):
        pass

    def close(self):
        pass


class FakeSock:
    def __init__(self, holder):
        self.holder = holder

    def setsockopt(self, *a): pass
    def settimeout(self, t=None):
        self.holder["timeout"] = t
    def connect(self, addr): pass
    def close(self): pass
    def fileno(self): return 99

    def makefile(self, mode, buffering=0):
        return self.holder["file"]


class FakeSelector:
    def __init__(self, holder):
        self.holder = holder

    def register(self, *a): pass
    def unregister(self, *a): pass
    def close(self): pass

    def select(self, timeout=None):
        f = self.holder["file"]
        ans = getattr(f, "pending_select", False)
        f.pending_select = False
        f.log.append(("select", ans))
        return [("key", 1)] if ans else []


def make_device(script, log):
    holder = {"file": FakeFile(script, log)}
    holder["file"].holder = holder
    real_socket, real_selectors = DEV.socket, DEV.selectors
    DEV.socket = types.SimpleNamespace(socket=lambda *a, **k: FakeSock(holder), AF_INET=2, SOCK_STREAM=1,
                                       IPPROTO_TCP=6, TCP_NODELAY=1, timeout=real_socket.timeout, error=real_socket.error)
    DEV.selectors = types.SimpleNamespace(DefaultSelector=lambda: FakeSelector(holder), EVENT_READ=1)
    try:
        d = DEV.Device()
        d.connect("127.0.0.1:8000")
    finally:
        DEV.socket, DEV.selectors = real_socket, real_selectors
    return d


def run_two_devices(stream, script):
    """A second Device is alive next to the first one and reads its own stream in between: nothing crosses over."""
    log = []
    d = make_device(script, log)
    other_stream = b"zz\nyy"
    other = make_device([b"z", b"z\ny", b"y"], [])
    results, oresults, problems = [], [], []
    limit = len(script) + stream.count(b"\n") + 6
    for _ in range(limit):
        r = d.readline()
        if len(oresults) < 8 and (not oresults or oresults[-1] is not DEV.READ_EOF):
            oresults.append(other.readline())
        results.append(r)
        if r is DEV.READ_EOF:
            break
    while len(oresults) < 8 and (not oresults or oresults[-1] is not DEV.READ_EOF):
        oresults.append(other.readline())
    if b"".join(x for x in results if x) != stream:
        problems.append(("bytes-cross-between-devices", f"with a second device reading {other_stream!r} in between, the first returned {[x for x in results if x]!r} for stream {short(stream)}"))
    if b"".join(x for x in oresults if x) != other_stream:
        problems.append(("bytes-cross-between-devices", f"the second device returned {[x for x in oresults if x]!r} for its stream {other_stream!r} (first stream {short(stream)})"))
    return results, problems


def run_reconnect(stream, script):
    """The same Device object is connected again after its first stream ended: the second stream is delivered like the first."""
    log = []
    d = make_device([b"first\nta", b"il"], log)
    for _ in range(6):
        if d.readline() is DEV.READ_EOF:
            break
    holder = {"file": FakeFile(script, log)}
    holder["file"].holder = holder
    real_socket, real_selectors = DEV.socket, DEV.selectors
    DEV.socket = types.SimpleNamespace(socket=lambda *a, **k: FakeSock(holder), AF_INET=2, SOCK_STREAM=1,
                                       IPPROTO_TCP=6, TCP_NODELAY=1, timeout=real_socket.timeout, error=real_socket.error)
    DEV.selectors = types.SimpleNamespace(DefaultSelector=lambda: FakeSelector(holder), EVENT_READ=1)
    try:
        d.connect("127.0.0.1:8000")
    finally:
        DEV.socket, DEV.selectors = real_socket, real_selectors
    results, problems = [], []
    for _ in range(len(script) + stream.count(b"\n") + 6):
        r = d.readline()
        results.append(r)
        if r is DEV.READ_EOF:
            break
    if b"".join(x for x in results if x) != stream:
        problems.append(("second-connection-stream-not-delivered", f"after the first stream ended and connect() was called again, readline returned {[x for x in results if x]!r} for stream {short(stream)}"))
    return results, problems


HOST_ACTIONS = ("reset", "write", "write-blocked", "is_connected", "is_connected-twice")


def run_script(stream, script, write_fails_before=None, action=None):
    """Returns (results, problems). write_fails_before = k: before the k-th readline() the host tries to write and the write
    fails (the peer has closed its side): whatever was received must still be delivered.
    action = (k, what): before the k-th readline() the host calls reset() (documented to have no effect on a network device),
    writes successfully, or writes while the send buffer is full - the write waits and the reading thread gets one readline()
    in meanwhile (the only point at which a second thread can run inside a sequential write)."""
    log = []
    d = make_device(script, log)
    results = []
    nnone = sum(1 for x in script if x is None or isinstance(x, tuple))
    limit = len(script) + stream.count(b"\n") + 6
    eof_seen = False
    raised = None
    for call in range(limit):
        if write_fails_before is not None and call == write_fails_before:
            d._socketfile.fail_writes = True
            try:
                d.write(b"M105\n")
            except DEV.DeviceError:
                pass
        if action is not None and call == action[0]:
            try:
                if action[1] == "reset":
                    d.reset()
                elif action[1] == "write":
                    d.write(b"M105\n")
                elif action[1].startswith("is_connected"):
                    # the host polls the connection state (printcore does so in its loops): a query, not a read
                    for _ in range(2 if action[1].endswith("twice") else 1):
                        d.is_connected
                else:
                    def reader():
                        results.append(d.readline())
                    d._socketfile.while_blocked = reader
                    d.write(b"M105\n")
            except DEV.DeviceError as e:
                raised = e
                break
            if results and results[-1] is DEV.READ_EOF:
                eof_seen = True
                break
        try:
            r = d.readline()
        except DEV.DeviceError as e:
            raised = e
            break
        results.append(r)
        if r is DEV.READ_EOF:
            eof_seen = True
            break
    problems = []
    if raised is not None:
        problems.append(("read-or-write-raised", f"{type(raised).__name__}: {raised} although the peer never failed; lines so far {[x for x in results if x]!r} for stream {short(stream)}"))
        return results, problems
    if not eof_seen:
        problems.append(("no-eof", f"READ_EOF not returned within {limit} calls"))
    else:
        again = d.readline()
        if again is not DEV.READ_EOF:
            problems.append(("eof-not-stable", f"readline after READ_EOF returned {again!r}"))
    lines = [r for r in results if r]
    expected = split_lf(stream)
    if b"".join(lines) != stream:
        kind = "bytes-lost" if len(b"".join(lines)) < len(stream) else ("bytes-duplicated" if len(b"".join(lines)) > len(stream) else "bytes-reordered")
        problems.append((kind, f"returned {lines!r} for stream {short(stream)}"))
    elif lines != expected:
        problems.append(("wrong-cut", f"returned {short_list(lines)} expected {short_list(expected)}"))
    empties = sum(1 for r in results if r == DEV.READ_EMPTY and r is not None)
    if empties > nnone:
        problems.append(("spurious-empty", f"{empties} READ_EMPTY results but only {nnone} 'no data yet' answers were scripted"))
    return results, problems


def split_lf(stream):
    out, cur = [], bytearray()
    for b in stream:
        cur.append(b)
        if b == 10:
            out.append(bytes(cur)); cur = bytearray()
    if cur:
        out.append(bytes(cur))
    return out


def short(b):
    return repr(b) if len(b) <= 40 else f"{b[:20]!r}...({len(b)} bytes)"


def short_list(ls):
    return [short(x) for x in ls][:8]


def compositions(n):
    """All ways to cut a length-n stream into non-empty chunks (as lists of lengths)."""
    if n == 0:
        yield []
        return
    for cuts in itertools.product((0, 1), repeat=n - 1):
        parts, size = [], 1
        for c in cuts:
            if c:
                parts.append(size); size = 1
            else:
                size += 1
        parts.append(size)
        yield parts


def scripts_for(stream, parts, max_none):
    """Insert up to max_none 'no data yet' answers (select False / True) at every position."""
    chunks, pos = [], 0
    for p in parts:
        chunks.append(stream[pos:pos + p]); pos += p
    yield list(chunks)
    k = len(chunks)
    NF, NT = (None, False), (None, True)
    for i in range(k + 1):
        for a in (NF, NT):
            yield chunks[:i] + [a] + chunks[i:]
    if max_none >= 2:
        for i in range(k + 1):
            for j in range(i, k + 1):
                for a in (NF, NT):
                    for b in (NF, NT):
                        s = chunks[:i] + [a] + chunks[i:j] + [b] + chunks[j:]
                        yield s


def long_cases():
    a = b"a"
    streams = {
        "line-300": a * 300 + b"\n",
        "lines-100x6": (a * 99 + b"\n") * 6,
        "crlf": b"ab\r\ncd\r\n\r\nef",
        "three-lines-in-256": (a * 80 + b"\n") * 3 + a * 13 + b"bbbb\ncc",
        "no-newline-512": a * 512 + b"\nz",
        "newline-at-255": a * 255 + b"\n" + b"b\n",
        "newline-at-256": a * 256 + b"\n" + b"b",
        "many-short": b"x\n" * 200,
    }
    sizes = (1, 2, 100, 255, 256)
    for name, stream in streams.items():
        pats = []
        for r in (1, 2, 3):
            pats += list(itertools.product(sizes, repeat=r))
        for pat in pats:
            parts, pos, i = [], 0, 0
            while pos < len(stream):
                p = min(pat[i % len(pat)], len(stream) - pos)
                parts.append(p); pos += p; i += 1
            if len(parts) > 40:
                continue
            yield name, stream, parts


def _work(item):
    kind, payload = item
    out = []
    n = 0
    outcomes = set()
    if kind == "short":
        stream, max_none = payload
        for parts in compositions(len(stream)):
            for script in scripts_for(stream, parts, max_none):
                res, problems = run_script(stream, script)
                n += 1
                outcomes.add(digest(res))
                for sig, msg in problems:
                    out.append((sig, msg, {"stream": list(stream), "script": enc(script)}))
                if 1 <= len(stream) <= 4 and not any(x is None or isinstance(x, tuple) for x in script):
                    for fn, tag in ((run_two_devices, "two-devices"), (run_reconnect, "reconnect")):
                        res3, problems3 = fn(stream, script)
                        n += 1
                        for sig, msg in problems3:
                            out.append((sig, msg, {"stream": list(stream), "script": enc(script), "variant": tag}))
                if 1 <= len(stream) <= 4 and sum(1 for x in script if x is None or isinstance(x, tuple)) <= 1:
                    # the host does something else between two reads: reset(), a write, a write that has to wait while the reader runs
                    for k in range(0, len(res)):
                        for what in HOST_ACTIONS:
                            res4, problems4 = run_script(stream, script, action=(k, what))
                            n += 1
                            for sig, msg in problems4:
                                out.append((sig + ":host-" + what, msg + f" (host action {what} before readline #{k})", {"stream": list(stream), "script": enc(script), "action": [k, what]}))
                if len(stream) <= 4 and script is not None and not any(x is None or isinstance(x, tuple) for x in script):
                    # a failed write (the peer closed its side) before any of the readline calls: nothing received is lost
                    for k in range(0, len(res)):
                        res2, problems2 = run_script(stream, script, write_fails_before=k)
                        n += 1
                        for sig, msg in problems2:
                            out.append((sig + ":after-failed-write", msg + f" (a write failed before readline #{k})", {"stream": list(stream), "script": enc(script), "write_fails_before": k}))
    else:
        name, stream, parts = payload
        for script in scripts_for(stream, parts, 1):
            res, problems = run_script(stream, script)
            n += 1
            outcomes.add(digest(res))
            for sig, msg in problems:
                out.append((sig, msg, {"stream_name": name, "stream": list(stream), "script": enc(script)}))
    return n, out, outcomes


def enc(script):
    return [list(x) if isinstance(x, bytes) else ["none", x[1]] for x in script]


def dec(script):
    return [bytes(x) if x and x[0] != "none" else (None, x[1]) for x in script]


def run(tier, seed):
    res = Result("exploration")
    maxlen = 7 if tier == "quick" else 9
    max_none = 2
    items = []
    nstreams = 0
    for L in range(0, maxlen + 1):
        for t in itertools.product(b"a\n", repeat=L):
            items.append(("short", (bytes(t), max_none if L <= 6 else 1)))
            nstreams += 1
    crlen = 5 if tier == "quick" else 7
    ncr = 0
    for L in range(1, crlen + 1):
        for t in itertools.product(b"a\n\r", repeat=L):
            if 13 in t:
                items.append(("short", (bytes(t), 1)))
                ncr += 1
    exlen = 3 if tier == "quick" else 4
    for L in range(1, exlen + 1):
        for t in itertools.product(b"a\n\r\x00\x0c\x1c\x85\xff", repeat=L):
            if set(t) & {0, 12, 28, 0x85, 0xff}:
                items.append(("short", (bytes(t), 1)))
                ncr += 1
    longs = list(long_cases())
    items += [("long", x) for x in longs]
    results = pmap(_work, items)
    total = 0
    outcomes = set()
    for n, out, oc in results:
        total += n
        outcomes |= oc
        for sig, msg, rp in out:
            res.add(Violation(sig, msg, rp))
    res.coverage = {
        "evaluations": total,
        "distinct_nontrivial": len(outcomes),
        "rule": (f"every byte string over {{a, LF}} of length <= {maxlen} ({nstreams} streams) x every composition into chunks x every "
                 f"placement of <= {max_none} (<= 1 for streams longer than 6 bytes) no-data-yet answers (select false or select true), also right before end-of-stream; "
                 f"every byte string over {{a, LF, CR}} of length <= {crlen} containing a CR and over {{a, LF, CR, NUL, FF, FS, 0x85, 0xff}} of length <= {exlen} containing one of the last five ({ncr} streams; only LF ends a line) x every composition x <= 1 no-data-yet answer; plus "
                 f"{len(longs)} long-stream fragmentations (8 streams up to 513 bytes x cyclic chunk-size patterns over {{1,2,100,255,256}}, "
                 "<= 1 'no data yet'); each script is run through the real Device (socket flavour, connect() with socket/selectors "
                 "substituted) calling readline() until READ_EOF; for streams of <= 4 bytes additionally a failing write injected before each readline call, a second Device alive and reading in between, the same Device connected again after its first stream ended, and (scripts with <= 1 no-data-yet answer) one host action before each readline call: reset(), one or two is_connected queries, a successful write, a write that waits on a full send buffer while the reading thread performs one readline (the fake socket models timeout mode: a read that finds no data while settimeout(t > 0) is in force times out and the socket file refuses all later reads); distinct = distinct result sequences"),
        "exhaustive": True,
        "exhaustive_note": "the stated script space is enumerated completely; streams outside it are not covered",
        "samples": [{"stream": "a\\na", "script": [[97], ["none", True], [10, 97]], "results": ["a\\n", "a", None]}],
        "streams": nstreams, "cr_streams": ncr, "long_cases": len(longs),
    }
    res.assumptions = ["socket file read(256) returns bytes, None (no data yet) or b'' (end of stream); selector answer scripted",
                       "lines are cut after LF only (CR is data)"]
    return res


def replay(body):
    rp = body["replay"]
    if rp.get("variant") == "two-devices":
        results, problems = run_two_devices(bytes(rp["stream"]), dec(rp["script"]))
    elif rp.get("variant") == "reconnect":
        results, problems = run_reconnect(bytes(rp["stream"]), dec(rp["script"]))
    else:
        results, problems = run_script(bytes(rp["stream"]), dec(rp["script"]), rp.get("write_fails_before"), action=tuple(rp["action"]) if rp.get("action") else None)
    return {"results": [r if r is None else r.decode("latin1") for r in results], "violations": problems}
