"""C10 - Interpolated paths follow the requested curve and end on target (E3 grid + chaining)."""

import itertools
import math

from ..common import Result, Violation, pmap, digest
from ._tracer import TraceRun, dist, dist_xy, unwrap, TWO_PI

STARTS = [(0.0, 0.0, 0.0), (10.0, 5.0, -2.0), (-3.5, 7.25, 1.0)]
DIRS = ["clockwise", "counter"]
MODES = ["absolute", "relative"]


def sgn(direction):
    return -1.0 if direction == "clockwise" else 1.0


# ---- case generators: (shape, logical args, expectation) ------------------

def arc_case(start, direction, radius, sweep_deg, dz, phi_deg, cz=None):
    """cz: optional third component of the centre argument (the arc lies in XY: it must not matter)."""
    phi = math.radians(phi_deg)
    center = (radius * math.cos(phi), radius * math.sin(phi))
    c = (start[0] + center[0], start[1] + center[1])
    a0 = math.atan2(start[1] - c[1], start[0] - c[0])
    total = sgn(direction) * math.radians(sweep_deg)
    if sweep_deg == 360:
        txy = (start[0], start[1])
    else:
        txy = (c[0] + radius * math.cos(a0 + total), c[1] + radius * math.sin(a0 + total))
    target = list(txy) if dz is None else [txy[0], txy[1], start[2] + dz]
    exp = {"kind": "circular", "c": c, "r0": radius, "r1": radius, "a0": a0, "total": total, "z0": start[2],
           "height": 0.0 if dz is None else dz, "end": (txy[0], txy[1], start[2] + (dz or 0.0))}
    return "arc", {"target": target, "center": list(center) + ([cz] if cz is not None else [])}, exp


def arc_radius_case(start, direction, radius, chord_ratio, ang_deg, dz=None):
    """dz: the target also names a Z (a helical arc given by its radius): the radius applies to the XY projection."""
    r = abs(radius)
    d = 2 * r * chord_ratio
    ang = math.radians(ang_deg)
    txy = (start[0] + d * math.cos(ang), start[1] + d * math.sin(ang))
    half = math.asin(min(1.0, chord_ratio))
    minor = 2 * half
    sweep = minor if radius > 0 else TWO_PI - minor
    if chord_ratio >= 1.0:
        sweep = math.pi
    exp = {"kind": "arc_radius", "r": r, "sweep": sweep, "dir": sgn(direction), "start": start,
           "end": (txy[0], txy[1], start[2] + (dz or 0.0)), "chord": d, "dz": dz or 0.0}
    target = list(txy) if dz is None else [txy[0], txy[1], start[2] + dz]
    return "arc_radius", {"target": target, "radius": float(radius)}, exp


def circle_case(start, direction, radius, phi_deg, cz=None):
    phi = math.radians(phi_deg)
    center = (radius * math.cos(phi), radius * math.sin(phi))
    c = (start[0] + center[0], start[1] + center[1])
    a0 = math.atan2(start[1] - c[1], start[0] - c[0])
    exp = {"kind": "circular", "c": c, "r0": radius, "r1": radius, "a0": a0, "total": sgn(direction) * TWO_PI,
           "z0": start[2], "height": 0.0, "end": start}
    return "circle", {"center": list(center) + ([cz] if cz is not None else [])}, exp


def helix_case(start, direction, r0, ratio, turns, extra_deg, dz, phi_deg, cz=None):
    phi = math.radians(phi_deg)
    center = (r0 * math.cos(phi), r0 * math.sin(phi))
    c = (start[0] + center[0], start[1] + center[1])
    a0 = math.atan2(start[1] - c[1], start[0] - c[0])
    r1 = r0 * ratio
    base = sgn(direction) * math.radians(extra_deg)          # in (0, 360]
    a1 = a0 + base
    txy = (c[0] + r1 * math.cos(a1), c[1] + r1 * math.sin(a1))
    if extra_deg == 360 and ratio == 1:
        txy = (start[0], start[1])
    total = base + sgn(direction) * TWO_PI * (turns - 1)
    target = list(txy) if dz is None else [txy[0], txy[1], start[2] + dz]
    exp = {"kind": "circular", "c": c, "r0": r0, "r1": r1, "a0": a0, "total": total, "z0": start[2],
           "height": 0.0 if dz is None else dz, "end": (txy[0], txy[1], start[2] + (dz or 0.0)), "turns": turns}
    return "helix", {"target": target, "center": list(center) + ([cz] if cz is not None else []), "turns": turns}, exp


def thread_case(start, direction, diameter, ang_deg, dz, pitch):
    ang = math.radians(ang_deg)
    txy = (start[0] + diameter * math.cos(ang), start[1] + diameter * math.sin(ang))
    c = ((start[0] + txy[0]) / 2, (start[1] + txy[1]) / 2)
    a0 = math.atan2(start[1] - c[1], start[0] - c[0])
    turns = max(1, int(abs(dz) / pitch))
    total = sgn(direction) * (math.pi + TWO_PI * (turns - 1))
    exp = {"kind": "circular", "c": c, "r0": diameter / 2, "r1": diameter / 2, "a0": a0, "total": total, "z0": start[2],
           "height": dz, "end": (txy[0], txy[1], start[2] + dz), "turns": turns}
    return "thread", {"target": [txy[0], txy[1], start[2] + dz], "pitch": float(pitch)}, exp


def spiral_case(start, direction, r1, ang_deg, turns, dz):
    ang = math.radians(ang_deg)
    txy = (start[0] + r1 * math.cos(ang), start[1] + r1 * math.sin(ang))
    target = list(txy) if dz is None else [txy[0], txy[1], start[2] + dz]
    exp = {"kind": "spiral", "c": (start[0], start[1]), "r1": r1, "turns": turns, "dir": sgn(direction), "z0": start[2],
           "height": 0.0 if dz is None else dz, "end": (txy[0], txy[1], start[2] + (dz or 0.0))}
    return "spiral", {"target": target, "turns": turns}, exp


def spline_case(start, offsets):
    pts = [[start[i] + o[i] if i < len(o) else None for i in range(len(o))] for o in offsets]
    pts = [[start[0] + o[0], start[1] + o[1]] + ([start[2] + o[2]] if len(o) > 2 else []) for o in offsets]
    full, cur = [], list(start)
    for p in pts:
        cur = [p[0], p[1], p[2] if len(p) > 2 else cur[2]]
        full.append(tuple(cur))
    exp = {"kind": "spline", "controls": full, "end": full[-1]}
    return "spline", {"targets": pts}, exp


def polyline_case(start, offsets):
    pts = [[start[0] + o[0], start[1] + o[1]] + ([start[2] + o[2]] if len(o) > 2 else []) for o in offsets]
    full, cur = [], list(start)
    for p in pts:
        cur = [p[0], p[1], p[2] if len(p) > 2 else cur[2]]
        full.append(tuple(cur))
    exp = {"kind": "polyline", "points": full, "end": full[-1]}
    return "polyline", {"targets": pts}, exp


# ---- oracle ----------------------------------------------------------------

def enforce_dir(d, angle):
    """Representative of `angle` in (0, 2pi] (d > 0) or [-2pi, 0) (d < 0); an exact 0 becomes a full turn."""
    a = math.fmod(angle, TWO_PI)
    if d > 0:
        return a + TWO_PI if a <= 0 else a
    return a - TWO_PI if a >= 0 else a


def wrap(a):
    return (a + math.pi) % TWO_PI - math.pi


def check_circular(shape, exp, verts, tol):
    """Vertices on a (possibly radius-varying) helix about c from bearing a0 through `total` radians."""
    P = []
    c, r0, r1, a0, total = exp["c"], exp["r0"], exp["r1"], exp["a0"], exp["total"]
    d = 1.0 if total > 0 else -1.0
    rmax = max(r0, r1)
    base_tol = tol + 1e-8 * (1 + rmax)
    if abs(r1 - r0) > 1e-9:
        # the radius identifies the curve parameter of each vertex
        K = 1 + abs(total) * rmax / abs(r1 - r0)
        prev = 0.0
        for i, v in enumerate(verts):
            r = dist_xy(v, c)
            frac = (r - r0) / (r1 - r0)
            if frac < prev - 4 * base_tol / abs(r1 - r0) or frac > 1 + 4 * base_tol / abs(r1 - r0):
                P.append((f"{shape}:radius-not-monotone", f"vertex {i} {v}: radius {r} (curve parameter {frac}, previous {prev})"))
                break
            a_exp = a0 + total * frac
            a = math.atan2(v[1] - c[1], v[0] - c[0])
            if abs(wrap(a - a_exp)) * r > 4 * base_tol * K:
                P.append((f"{shape}:radius-not-linear-in-angle", f"vertex {i} {v}: bearing {math.degrees(a):.6f} deg at radius {r}, expected {math.degrees(wrap(a_exp)):.6f} deg"))
                break
            z_exp = exp["z0"] + exp["height"] * frac
            if abs(v[2] - z_exp) > base_tol + abs(exp["height"]) * 4 * base_tol / abs(r1 - r0):
                P.append((f"{shape}:z-not-linear-in-angle", f"vertex {i} {v}: z {v[2]}, expected {z_exp}"))
                break
            prev = frac
        return P
    ang = unwrap(verts, c, a0)
    atol = base_tol / max(r0, 1e-9) + 1e-9
    prev = a0
    for i, (v, a) in enumerate(zip(verts, ang)):
        frac = (a - a0) / total
        r = dist_xy(v, c)
        if abs(r - r0) > base_tol:
            P.append((f"{shape}:radius-off-curve", f"vertex {i} {v}: radius {r} about {c}, expected {r0}"))
            break
        if (a - prev) * d < -2 * atol:
            P.append((f"{shape}:not-monotone", f"vertex {i}: bearing {a} after {prev}, direction {d}"))
            break
        z_exp = exp["z0"] + exp["height"] * frac
        if abs(v[2] - z_exp) > base_tol + abs(exp["height"] / total) * 2 * atol:
            P.append((f"{shape}:z-not-linear-in-angle", f"vertex {i} {v}: z {v[2]}, expected {z_exp}"))
            break
        prev = a
    sweep = ang[-1] - a0
    if not P and abs(sweep - total) > 4 * atol + 1e-7:
        P.append((f"{shape}:wrong-sweep", f"swept {math.degrees(sweep):.6f} deg, expected {math.degrees(total):.6f} deg"))
    return P


def check(shape, exp, verts, start, resolution, tol):
    """Closed-form check of the vertices of one traced shape. Returns list of (sig, msg)."""
    P = []
    if not verts:
        return [(f"{shape}:no-output", "no G1 vertex emitted")]
    end = exp["end"]
    if dist(verts[-1], end) > tol + 1e-7 * (1 + max(abs(v) for v in end)):
        P.append((f"{shape}:does-not-end-on-target", f"last vertex {verts[-1]} vs target {end} (tol {tol:g})"))
    kind = exp["kind"]
    if kind == "spiral":
        # a spiral is a helix whose start radius is 0: the start bearing is undefined, so it is
        # estimated from the first vertex (two candidates near the branch cut) and then verified
        c, r1, d = exp["c"], exp["r1"], exp["dir"]
        a_end = math.atan2(end[1] - c[1], end[0] - c[0])
        f0 = dist_xy(verts[0], c) / r1
        th0 = math.atan2(verts[0][1] - c[1], verts[0][0] - c[0])
        cands = []
        guess = th0
        for _ in range(80):
            base = enforce_dir(d, a_end - guess)
            T = base + d * TWO_PI * (exp["turns"] - 1)
            guess = th0 - T * f0
        T_guess = enforce_dir(d, a_end - guess) + d * TWO_PI * (exp["turns"] - 1)
        # refine with a vertex near the middle of the curve (the first vertex is too close to the centre
        # for its bearing to survive output rounding)
        fr = [dist_xy(v, c) / r1 for v in verts]
        km = min(range(len(verts)), key=lambda i: abs(fr[i] - 0.5))
        if 0.05 < fr[km] < 0.95:
            th = math.atan2(verts[km][1] - c[1], verts[km][0] - c[0])
            m = round(((T_guess * (1 - fr[km])) - (a_end - th)) / TWO_PI)
            T_guess = (a_end - th + TWO_PI * m) / (1 - fr[km])
        for k in (0, 1, -1):
            T = T_guess + k * TWO_PI
            if TWO_PI * (exp["turns"] - 1) - 1e-6 < abs(T) <= TWO_PI * exp["turns"] + 1e-6 and T * d > 0:
                cands.append((a_end - T, T))
        best = None
        for a0c, T in cands:
            sub = dict(exp, kind="circular", r0=0.0, a0=a0c, total=T)
            pr = check_circular(shape, sub, verts, tol)
            if best is None or len(pr) < len(best):
                best = pr
        if best is None:
            P.append((f"{shape}:wrong-number-of-turns", f"no sweep within turns={exp['turns']} explains the end bearing"))
        else:
            P += best
    elif kind == "circular":
        P += check_circular(shape, exp, verts, tol)
    elif kind == "arc_radius":
        r, d = exp["r"], exp["dir"]
        s, e = exp["start"], exp["end"]
        # the two circles of radius r through start and end
        mx, my = (s[0] + e[0]) / 2, (s[1] + e[1]) / 2
        ch = exp["chord"]
        h = math.sqrt(max(r * r - (ch / 2) ** 2, 0.0))
        ux, uy = (e[0] - s[0]) / ch, (e[1] - s[1]) / ch
        cands = [(mx - uy * h, my + ux * h), (mx + uy * h, my - ux * h)]
        ok = False
        notes = []
        for c in cands:
            a0 = math.atan2(s[1] - c[1], s[0] - c[0])
            ang = unwrap(verts, c, a0)
            slack = tol + 1e-7 * (1 + r)
            if ch / 2 > 0.99 * r:      # near a semicircle the centre moves by sqrt(2 r delta) for a start error delta
                slack += 4 * math.sqrt(2 * r * (tol + 1e-8))
            rad_ok = all(abs(dist_xy(v, c) - r) <= slack for v in verts)
            sweep = ang[-1] - a0
            mono = all((b - a) * d >= -1e-7 for a, b in zip([a0] + ang[:-1], ang))
            notes.append((c, rad_ok, math.degrees(sweep), mono))
            z_ok = all(abs(v[2] - (s[2] + exp.get("dz", 0.0) * (a - a0) / sweep)) <= slack + abs(exp.get("dz", 0.0)) * 4 * slack / r
                       for v, a in zip(verts, ang)) if abs(sweep) > 1e-9 else False
            notes[-1] = notes[-1] + (z_ok,)
            if rad_ok and mono and z_ok and abs(abs(sweep) - exp["sweep"]) <= 1e-6 + 4 * slack / r and sweep * d > 0:
                ok = True
        if not ok:
            P.append((f"{shape}:not-the-requested-arc", f"expected |sweep| {math.degrees(exp['sweep']):.4f} deg dir {d} radius {r}; candidates {notes}"))
        if not exp.get("dz") and any(abs(v[2] - s[2]) > tol for v in verts):
            P.append((f"{shape}:z-changed", "z varies on a planar arc"))
    elif kind == "spline":
        j = 0
        for k, cp in enumerate(exp["controls"]):
            found = None
            for i in range(j, len(verts)):
                if dist(verts[i], cp) <= resolution * 1.0 + tol:
                    found = i
                    break
            if found is None:
                P.append((f"{shape}:misses-control-point", f"control point #{k + 1} {cp} is not within one resolution ({resolution}) of any later vertex"))
                break
            j = found
    elif kind == "polyline":
        pts = exp["points"]
        if len(verts) != len(pts):
            P.append((f"{shape}:vertex-count", f"{len(verts)} vertices for {len(pts)} points"))
        else:
            for i, (v, p) in enumerate(zip(verts, pts)):
                if dist(v, p) > tol + 1e-9 * (1 + max(abs(x) for x in p)):
                    P.append((f"{shape}:wrong-vertex", f"vertex {i} {v} vs point {p}"))
                    break
    return P


# ---- grid --------------------------------------------------------------------

def grid(tier):
    """Yield (resolution, case-builder(start, direction) -> (shape, args, exp))."""
    thorough = tier == "thorough"
    res_list = [2.0, 0.5] + ([0.1] if thorough else [])
    out = []
    for res in res_list:
        for radius in ([2.0, 10.0] + ([250.0, 1.0] if thorough else [])):
            if radius < res:
                continue
            if radius / res > 600:
                continue
            for sweep in (30, 90, 180, 270, 360):
                for dz in (None, 5.0):
                    for phi in ((0,) if not thorough else (0, 135)):
                        out.append((res, lambda s, d, radius=radius, sweep=sweep, dz=dz, phi=phi: arc_case(s, d, radius, sweep, dz, phi)))
            # very short arcs: the target is closer to the start than a tenth of the resolution, yet it is not a full turn
            for sweep in (0.6, 0.05):
                out.append((res, lambda s, d, radius=radius, sweep=sweep: arc_case(s, d, radius, sweep, None, 0)))
            out.append((res, lambda s, d, radius=radius: arc_radius_case(s, d, radius, 0.002, 30)))
            for ratio in (0.3, 0.9, 1.0):
                for sign in (1, -1):
                    out.append((res, lambda s, d, radius=radius, ratio=ratio, sign=sign: arc_radius_case(s, d, sign * radius, ratio, 30)))
            for sign in (1, -1):       # helical arcs given by radius
                out.append((res, lambda s, d, radius=radius, sign=sign: arc_radius_case(s, d, sign * radius, 0.6, 200, dz=3.0)))
            out.append((res, lambda s, d, radius=radius: circle_case(s, d, radius, 60)))
            # centre given with a third component (the shapes lie in XY; the documented curve does not depend on it)
            out.append((res, lambda s, d, radius=radius: circle_case(s, d, radius, 60, cz=2.5)))
            out.append((res, lambda s, d, radius=radius: arc_case(s, d, radius, 90, 5.0, 0, cz=-1.5)))
            out.append((res, lambda s, d, radius=radius: arc_case(s, d, radius, 270, None, 135, cz=2.5)))
            if radius <= 50:
                out.append((res, lambda s, d, radius=radius: helix_case(s, d, radius, 0.5, 2, 90, 5.0, 200, cz=1.0)))
            for turns in (1, 3):
                for ratio in (1.0, 0.5, 2.0):
                    for extra in ((90, 360) if not thorough else (45, 90, 360)):
                        for dz in (None, 5.0):
                            if radius > 50 or (extra == 360 and ratio != 1.0):
                                continue      # end bearing == start bearing with different radii: 0 vs 360 degrees is decided by rounding noise
                            out.append((res, lambda s, d, radius=radius, ratio=ratio, turns=turns, extra=extra, dz=dz: helix_case(s, d, radius, ratio, turns, extra, dz, 200)))
                if radius <= 50:
                    for dz in (None, 4.0):
                        out.append((res, lambda s, d, radius=radius, turns=turns, dz=dz: spiral_case(s, d, radius, 75, turns, dz)))
        for pitch in (1.0, 2.5):
            for dz in (0.4, 5.2, -5.2):    # |dz| / pitch away from integers: the turn count is int(|dz| / pitch)
                out.append((res, lambda s, d, pitch=pitch, dz=dz: thread_case(s, d, 6.0, 20, dz, pitch)))
        # a Z travel that is an exact decimal multiple of the pitch (8 / 0.8 is 10 turns, in real numbers and in floating point division alike;
        # the start heights of this grid are binary fractions, so the travel the builder sees is exactly dz)
        for pitch, dz in ((0.8, 8.0), (0.4, -2.0), (0.1, 1.0), (0.2, 5.0)):
            assert abs(dz) / pitch == round(abs(dz) / pitch)
            out.append((res, lambda s, d, pitch=pitch, dz=dz: thread_case(s, d, 6.0, 20, dz, pitch)))
        splines = [[(5, 5)], [(5, 5), (10, 0)], [(5, 5, 2), (10, 0, 2), (15, 5, 0)], [(5, 5), (5, 5), (10, 0)],
                   [(6, 0), (6, 6), (0, 0)], [(5, 5), (10, 0), (5, 5), (0, 10)], [(4, 0, 1), (8, 3, 2), (4, 6, 3), (0, 3, 4)],
                   # motion dominated by Z (XY advance per control point well below the resolution)
                   [(0.1, 0.0, 4.0), (0.0, 0.1, 8.0), (0.1, 0.1, 12.0)], [(0.2, 0.0, 5.0), (-0.2, 0.0, 10.0), (0.2, 0.0, 15.0), (0.0, 0.0, 20.0)]]
        for offs in splines:
            out.append((res, lambda s, d, offs=offs: spline_case(s, offs)))
        for offs in ([(3, 0)], [(3, 0), (3, 4, 1)], [(1, 1), (1, 1), (0, 0, 2)]):
            out.append((res, lambda s, d, offs=offs: polyline_case(s, offs)))
        # argument forms: extra words and a comment on every segment, Point objects, numpy arrays (3-element targets only:
        # a Point always has three components, so a 2-D request cannot be expressed with it)
        def with_form(case, **extra):
            shape, args, exp = case
            return shape, {**args, **extra}, exp
        for form in ("point", "np"):
            out.append((res, lambda s, d, form=form: with_form(arc_case(s, d, 4.0, 90, 2.0, 0, cz=0.0), form=form)))
            out.append((res, lambda s, d, form=form: with_form(helix_case(s, d, 4.0, 0.5, 2, 90, 3.0, 200, cz=0.0), form=form)))
            out.append((res, lambda s, d, form=form: with_form(spline_case(s, [(5, 5, 2), (10, 0, 2), (15, 5, 0)]), form=form)))
            out.append((res, lambda s, d, form=form: with_form(thread_case(s, d, 6.0, 20, 5.2, 1.0), form=form)))
        out.append((res, lambda s, d: with_form(arc_case(s, d, 4.0, 270, None, 135), kwargs={"F": 1200, "comment": "segment"})))
        out.append((res, lambda s, d: with_form(circle_case(s, d, 3.0, 60), kwargs={"F": 900, "E": 1.5})))
        out.append((res, lambda s, d: with_form(polyline_case(s, [(3, 0), (3, 4, 1)]), kwargs={"S": 50, "comment": "p"})))
        out.append((res, lambda s, d: with_form(spiral_case(s, d, 4.0, 75, 2, 1.0), kwargs={"f": 600})))
    return out


def _work(item):
    idx, res, start, direction, mode, dp = item
    builder = GRID[idx][1]
    shape, args, exp = builder(start, direction)
    run = TraceRun(start, mode, direction, res, dp=dp)
    exc, verts = run.trace(shape, args)
    rp = {"grid_index": idx, "resolution": res, "start": start, "direction": direction, "mode": mode, "dp": dp,
          "shape": shape, "args": args}
    if exc is not None:
        return [(f"{shape}:raised", f"{shape}({args}) from {start} {mode} {direction} raised {exc!r}", rp)], shape, 0
    problems = check(shape, exp, verts, start, res, run.budget(len(verts)))
    return [(sig, f"{shape} {args} from {start}, {mode}, {direction}, resolution {res}: {msg}", rp) for sig, msg in problems], shape, len(verts)


def _work_chain(item):
    i1, i2, res, start, direction, mode = item[:6]
    run = TraceRun(start, mode, direction, res, dp=8)
    out = []
    total = 0
    s = start
    flip = len(item) > 6 and item[6]
    for step, idx in enumerate((i1, i2)):
        if flip and step == 1:
            # the direction is changed on the live builder between the two shapes
            direction = "counter" if direction == "clockwise" else "clockwise"
            run.st.g.set_direction(direction)
        # the logical position is carried exactly from shape to shape (a caller knows where a path ended);
        # the interpreter's position only differs from it by output rounding
        shape, args, exp = GRID[idx][1](s, direction)
        exc, verts = run.trace(shape, args, start=s)
        rp = {"chain": [i1, i2], "resolution": res, "start": start, "direction": item[4], "mode": mode, "dp": 8, "flip": bool(flip)}
        if exc is not None:
            out.append((f"{shape}:raised", f"chained {shape}({args}) from {s} raised {exc!r}", rp))
            break
        total += len(verts)
        for sig, msg in check(shape, exp, verts, s, res, run.budget(total)):
            out.append((sig + ":chained", f"chained {shape} {args} from {s}, {mode}, {direction}: {msg}", rp))
        s = tuple(exp["end"])
    return out, "chain", total


GRID = []
CHAIN_BUILDERS = [
    lambda s, d: arc_case(s, d, 10.0, 90, 5.0, 0), lambda s, d: arc_radius_case(s, d, -10.0, 0.3, 30),
    lambda s, d: circle_case(s, d, 2.0, 60), lambda s, d: helix_case(s, d, 10.0, 0.5, 3, 90, 5.0, 200),
    lambda s, d: thread_case(s, d, 6.0, 20, 5.2, 1.0), lambda s, d: spiral_case(s, d, 10.0, 75, 3, 4.0),
    lambda s, d: spline_case(s, [(5, 5, 2), (10, 0, 2), (15, 5, 0)]), lambda s, d: polyline_case(s, [(3, 0), (3, 4, 1)]),
]


def run(tier, seed):
    global GRID
    GRID = grid(tier)
    res = Result("exploration")
    items = []
    for idx, (r, _) in enumerate(GRID):
        for start in STARTS:
            for direction in DIRS:
                for mode in MODES:
                    items.append((idx, r, start, direction, mode, 8))
        items.append((idx, r, STARTS[1], "counter", "relative", 5))
        items.append((idx, r, STARTS[2], "clockwise", "absolute", 5))
    results = pmap(_work, items, chunksize=4)
    # chained pairs (non-initial states): one representative of every shape, every ordered pair. Representatives avoid
    # closed shapes (target == start): after a first shape the second one starts from a rounded position, and whether an
    # almost-closed arc is read as 0 or 360 degrees is then decided by rounding noise, not by the code under test
    chain_builders = CHAIN_BUILDERS
    _unused = [
        lambda s, d: arc_case(s, d, 10.0, 90, 5.0, 0), lambda s, d: arc_radius_case(s, d, -10.0, 0.3, 30),
        lambda s, d: circle_case(s, d, 2.0, 60), lambda s, d: helix_case(s, d, 10.0, 0.5, 3, 90, 5.0, 200),
        lambda s, d: thread_case(s, d, 6.0, 20, 5.2, 1.0), lambda s, d: spiral_case(s, d, 10.0, 75, 3, 4.0),
        lambda s, d: spline_case(s, [(5, 5, 2), (10, 0, 2), (15, 5, 0)]), lambda s, d: polyline_case(s, [(3, 0), (3, 4, 1)]),
    ]
    base = len(GRID)
    GRID += [(0.5, b) for b in chain_builders]
    rep_idx = list(range(base, base + len(chain_builders)))
    chains = [(a, b, 0.5, STARTS[1], d, m) for a in rep_idx for b in rep_idx for d in DIRS for m in MODES]
    chains += [(a, b, 0.5, STARTS[2], d, "absolute", True) for a in rep_idx for b in rep_idx for d in DIRS]
    results2 = pmap(_work_chain, chains, chunksize=2)
    shapes, nverts, distinct = {}, 0, set()
    for out, shape, n in list(results) + list(results2):
        shapes[shape] = shapes.get(shape, 0) + 1
        nverts += n
        for sig, msg, rp in out:
            res.add(Violation(sig, msg, rp))
    res.coverage = {
        "evaluations": len(items) + len(chains),
        "distinct_nontrivial": len(items) + len(chains),
        "rule": ("grid: start in 3 positions x direction x distance mode x resolution x shape parameters (arc: radius x sweep {30..360} x dz x centre bearing; arc_radius: +-r x chord ratio "
                 "{0.3,0.9,1}; circle; helix: turns {1,3} x end-radius ratio {1,0.5,2} x extra sweep x dz; spiral; thread: pitch x dz; splines incl. duplicate, revisited and closing control points; "
                 "polylines), decimal_places 8 (and 5 on two configurations); plus every ordered pair of shape representatives chained on one builder; vertices are rebuilt by the independent "
                 "interpreter from the emitted G1 lines and checked against closed-form curve equations; every grid cell is a distinct case"),
        "exhaustive": True,
        "exhaustive_note": "the stated finite grid is enumerated completely; the continuum of parameters is not covered",
        "cases_by_shape": shapes, "vertices_checked": nverts,
        "samples": [{"grid_index": items[0][0], "resolution": items[0][1], "start": items[0][2], "direction": items[0][3], "mode": items[0][4]},
                    {"chain": list(chains[0][:2]), "mode": chains[0][5]}],
    }
    res.assumptions = ["tolerance = accumulated output rounding (0.5*10^-dp per word, summed over relative increments) + 1e-7 relative",
                       "grid excludes resolutions coarser than the radius (angle unwrapping would be ambiguous)"]
    return res


def replay(body):
    global GRID
    rp = body["replay"]
    tier = body.get("tier", "thorough")
    GRID = grid(tier)
    GRID += [(0.5, b) for b in CHAIN_BUILDERS]
    if "chain" in rp:
        out, _, _ = _work_chain((rp["chain"][0], rp["chain"][1], rp["resolution"], tuple(rp["start"]), rp["direction"], rp["mode"], rp.get("flip", False)))
    else:
        out, _, _ = _work((rp["grid_index"], rp["resolution"], tuple(rp["start"]), rp["direction"], rp["mode"], rp["dp"]))
    return {"violations": [(s, m) for s, m, _ in out]}
