"""C12 - Interpolation honours the configured resolution (E3 grid)."""

import math

from ..common import Result, Violation, pmap
from ._tracer import TraceRun, dist, TWO_PI
from . import c10

START = (10.0, 5.0, -2.0)
START_FAR = (2400.0, -1800.0, 350.0)     # far from the origin: coordinates ~1e5 x the fine resolutions


def constant_speed_cases(tier):
    """(label, builder(start, direction) -> (shape, args, exp), true path length, radius)"""
    thorough = tier == "thorough"
    out = []
    radii = [0.05, 1.0, 10.0, 100.0, 1000.0]
    sweeps = [30, 90, 180, 360] + ([3, 270] if thorough else [])
    for R in radii:
        for sw in sweeps:
            for dz in (None, 5.0) + ((-5.0,) if R <= 10.0 and sw in (30, 180) else ()):      # ramping down as well as up
                L = math.hypot(R * math.radians(sw), dz or 0.0)
                out.append((f"arc R{R} sweep{sw} dz{dz}", lambda s, d, R=R, sw=sw, dz=dz: c10.arc_case(s, d, R, sw, dz, 0), L, R))
        out.append((f"circle R{R}", lambda s, d, R=R: c10.circle_case(s, d, R, 60), TWO_PI * R, R))
        # argument forms: a centre with a third component (hub given in 3-D), numpy arrays and numpy scalars
        out.append((f"circle R{R} centre-3d", lambda s, d, R=R: c10.circle_case(s, d, R, 60, cz=-3.0 * R), TWO_PI * R, R))
        out.append((f"arc R{R} sweep90 centre-3d", lambda s, d, R=R: c10.arc_case(s, d, R, 90, None, 0, cz=2.5 * R), R * math.pi / 2, R))
        for ratio, sign in ((0.3, 1), (0.3, -1)):
            half = math.asin(ratio)
            sweep = 2 * half if sign > 0 else TWO_PI - 2 * half
            out.append((f"arc_radius R{R} ratio{ratio} sign{sign} numpy", lambda s, d, R=R, ratio=ratio, sign=sign: with_form(c10.arc_radius_case(s, d, sign * R, ratio, 30), "np"), R * sweep, R))
        for ratio, sign in ((0.3, 1), (0.9, -1), (1.0, 1)):
            half = math.asin(ratio)
            sweep = 2 * half if sign > 0 else TWO_PI - 2 * half
            out.append((f"arc_radius R{R} ratio{ratio} sign{sign}", lambda s, d, R=R, ratio=ratio, sign=sign: c10.arc_radius_case(s, d, sign * R, ratio, 30), R * sweep, R))
        for turns in (1, 3):
            for dz in (None, 8.0):
                ang = math.radians(90) + TWO_PI * (turns - 1)
                L = math.hypot(R * ang, dz or 0.0)
                out.append((f"helix R{R} turns{turns} dz{dz}", lambda s, d, R=R, turns=turns, dz=dz: c10.helix_case(s, d, R, 1.0, turns, 90, dz, 200), L, R))
    # steep, shallow helical arcs: the rise dominates the planar arc length
    for R, sw, dz in ((5.0, 3, 10.0), (40.0, 1.2, 25.0), (2.0, 10, 30.0)):
        L = math.hypot(R * math.radians(sw), dz)
        out.append((f"steep arc R{R} sweep{sw} dz{dz}", lambda s, d, R=R, sw=sw, dz=dz: c10.arc_case(s, d, R, sw, dz, 0), L, R))
    return out


def with_form(case, form):
    shape, args, exp = case
    return shape, {**args, "form": form}, exp


def other_shapes():
    return [
        ("spiral", lambda s, d: c10.spiral_case(s, d, 10.0, 75, 2, 3.0)),
        ("helix-varying", lambda s, d: c10.helix_case(s, d, 10.0, 0.5, 2, 90, 4.0, 200)),
        ("thread", lambda s, d: c10.thread_case(s, d, 6.0, 20, 5.2, 1.0)),
        ("spline", lambda s, d: c10.spline_case(s, [(5, 5, 2), (10, 0, 2), (15, 5, 0)])),
        ("spline-closed", lambda s, d: c10.spline_case(s, [(6, 0), (6, 6), (0, 0)])),
    ]


def trace_lengths(builder, resolution, direction, mode, units, start=START):
    run = TraceRun(start, mode, direction, resolution, dp=8, units=units)
    r = float(run.st.g.state.resolution)           # the configured resolution at trace time
    shape, args, exp = builder(start, direction)
    exc, verts = run.trace(shape, args, start=start)
    if exc is not None:
        return r, shape, exc, [], []
    pts = [start] + verts
    segs = [dist(pts[i], pts[i + 1]) for i in range(len(verts))]
    return r, shape, None, verts, segs


def _work(item):
    kind, idx, resolution, direction, mode, units, tier = item
    out = []
    if kind in ("speed", "speed-far"):
        label, builder, L, R = constant_speed_cases(tier)[idx]
        if kind == "speed-far":
            label += " far from the origin"
        r, shape, exc, verts, segs = trace_lengths(builder, resolution, direction, mode, units, start=START_FAR if kind == "speed-far" else START)
        rp = {"kind": kind, "index": idx, "label": label, "resolution": resolution, "direction": direction, "mode": mode, "units": units}
        if exc is not None:
            return [(f"{shape}:raised", f"{label} at resolution {resolution}: {exc!r}", rp)], 0
        n = len(segs)
        eps = 1e-6 * r + 2e-8 * (n if mode == "relative" else 1)
        longest = max(segs)
        if longest > 1.02 * r + eps:
            out.append((f"{shape}:segment-longer-than-resolution", f"{label}: longest segment {longest:.6g} with resolution {r:g} ({n} segments, path length {L:.6g})", rp))
        if R >= 5 * r and n > 2:
            floor = 0.88 * 2 * R * math.sin(0.9 * r / (2 * R))
            interior = segs[1:-1]
            if interior and min(interior) < floor - eps:
                out.append((f"{shape}:segment-much-shorter-than-resolution", f"{label}: interior segment {min(interior):.6g} with resolution {r:g} (floor {floor:.6g})", rp))
        if L >= r:
            lo, hi = L / (1.02 * r) - 1, L / (0.88 * r) + 2
            if not (lo <= n <= hi):
                out.append((f"{shape}:segment-count-not-proportional", f"{label}: {n} segments for length {L:.6g} at resolution {r:g} (expected {lo:.1f}..{hi:.1f})", rp))
        # chord error implied by the segment length (vertices on the curve is C10's business)
        sag = R - math.sqrt(max(R * R - (min(longest, 2 * R) / 2) ** 2, 0.0))
        if sag > 1.05 * (1.02 * r) ** 2 / (8 * R) + 1e-9 and r <= R:
            out.append((f"{shape}:chord-error", f"{label}: sagitta {sag:.6g} exceeds r^2/(8R) = {r * r / (8 * R):.6g}", rp))
        return out, n
    if kind == "precision":
        # the output precision is a matter of the formatter: the segment count follows the configured resolution at any decimal_places
        # (the count is exact even where the emitted coordinates are coarse); `units` carries the number of decimals here
        label, builder, L, R = constant_speed_cases(tier)[idx]
        dp = int(units)
        rp = {"kind": kind, "index": idx, "label": label + f" at {dp} decimals", "resolution": resolution, "direction": direction, "mode": mode, "units": units}
        try:
            run = TraceRun(START, mode, direction, resolution, dp=dp, units=None)
        except ValueError as e:
            return [("precision:set_resolution-raised", f"set_resolution({resolution}) on a builder with decimal_places={dp} raised {e!r}", rp)], 0
        shape, args, exp = builder(START, direction)
        back = float(run.st.g.state.resolution)
        if abs(back - resolution) > 1e-12 * resolution:
            out.append(("precision:resolution-not-kept", f"set_resolution({resolution}) on a builder with decimal_places={dp}: state.resolution = {back!r}", rp))
        exc, verts = run.trace(shape, args, start=START)
        if exc is not None:
            return out + [(f"{shape}:raised", f"{label} at resolution {resolution}, {dp} decimals: {exc!r}", rp)], 0
        n = len(verts)
        lo, hi = L / (1.02 * resolution) - 1, L / (0.88 * resolution) + 2
        if L >= resolution and not (lo <= n <= hi):
            out.append((f"{shape}:segment-count-not-proportional:coarse-output", f"{label} with decimal_places={dp}: {n} segments for length {L:.6g} at resolution {resolution:g} (expected {lo:.1f}..{hi:.1f})", rp))
        return out, n
    if kind == "units-switch":
        # the units are switched on a live builder after the resolution was set: the resolution in force afterwards is the same
        # number or the same physical length - nothing else
        from ..harness import Sut
        st = Sut({})
        g = st.g
        other = units
        if other == "mm":
            g.set_length_units("in")
        g.set_resolution(float(resolution))
        g.set_length_units(other)
        r = float(g.state.resolution)
        factor = 25.4 if other == "mm" else 1 / 25.4
        rp = {"kind": kind, "index": idx, "label": f"units switched to {other}", "resolution": resolution, "direction": direction, "mode": mode, "units": units}
        if not any(abs(r - want) <= 1e-9 * want for want in (resolution, resolution * factor)):
            return [("units-switch:resolution-neither-kept-nor-converted", f"set_resolution({resolution}) then set_length_units({other!r}): state.resolution = {r!r}, "
                     f"expected {resolution} (number kept) or {resolution * factor} (length kept)", rp)], 0
        return [], 0
    if kind == "live-change":
        # the resolution is changed on a live builder between two traces: the second trace must honour the new value
        label, builder, L, R = constant_speed_cases(tier)[idx]
        r1, r2 = resolution, resolution / 4
        run = TraceRun(START, mode, direction, r1, dp=8, units=units)
        shape, args, exp = c10.circle_case(START, direction, R, 60)
        exc, verts = run.trace(shape, args, start=START)
        run.st.g.set_resolution(float(r2))
        run.st.g.set_direction("counter" if direction == "clockwise" else "clockwise")
        r = float(run.st.g.state.resolution)
        for bad in (0.0, -1.0):
            # a rejected setter call leaves the last accepted resolution in force (if an implementation accepts the
            # value, the accepted one is simply set again)
            try:
                run.st.g.set_resolution(bad)
            except Exception:    # noqa: BLE001
                pass
            else:
                run.st.g.set_resolution(float(r2))
        exc2, verts2 = run.trace(shape, args, start=START)
        rp = {"kind": kind, "index": idx, "label": f"circle R{R} twice", "resolution": resolution, "direction": direction, "mode": mode, "units": units}
        if exc is not None or exc2 is not None:
            return [(f"{shape}:raised", f"circle R{R}: {exc!r} / {exc2!r}", rp)], 0
        pts = [START] + verts2
        segs = [dist(pts[i], pts[i + 1]) for i in range(len(verts2))]
        Lc = TWO_PI * R
        if max(segs) > 1.02 * r + 1e-6:
            out.append((f"{shape}:segment-longer-than-resolution:after-set_resolution", f"circle R{R}: resolution changed {r1} -> {r} on a live builder, longest segment {max(segs):.6g}", rp))
        if not (Lc / (1.02 * r) - 1 <= len(segs) <= Lc / (0.88 * r) + 2):
            out.append((f"{shape}:segment-count-not-proportional:after-set_resolution", f"circle R{R}: resolution changed {r1} -> {r} on a live builder, {len(segs)} segments for length {Lc:.6g}", rp))
        return out, len(segs)
    if kind == "after-other-shape":
        # a different (variable-speed, longer) shape is traced first on the same builder: nothing of it may leak into the next trace
        olabel, obuilder = other_shapes()[idx]
        R = 3.0
        run = TraceRun(START, mode, direction, resolution, dp=8, units=units)
        r = float(run.st.g.state.resolution)
        shape0, args0, exp0 = obuilder(START, direction)
        exc0, verts0 = run.trace(shape0, args0, start=START)
        p0 = tuple(exp0["end"])
        shape, args, exp = c10.circle_case(p0, direction, R, 60)
        exc, verts = run.trace(shape, args, start=p0)
        rp = {"kind": kind, "index": idx, "label": f"{olabel} then circle R{R}", "resolution": resolution, "direction": direction, "mode": mode, "units": units}
        if exc0 is not None or exc is not None:
            return [(f"{shape}:raised", f"{olabel} then circle: {exc0!r} / {exc!r}", rp)], 0
        pts = [p0] + verts
        segs = [dist(pts[i], pts[i + 1]) for i in range(len(verts))]
        Lc = TWO_PI * R
        if not segs or max(segs) > 1.02 * r + 1e-5:
            out.append((f"{shape}:segment-longer-than-resolution:after-another-shape", f"circle R{R} traced after {olabel}: longest segment {max(segs) if segs else None} at resolution {r}", rp))
        if not (Lc / (1.02 * r) - 1 <= len(segs) <= Lc / (0.88 * r) + 2):
            out.append((f"{shape}:segment-count-not-proportional:after-another-shape", f"circle R{R} traced after {olabel}: {len(segs)} segments for length {Lc:.5g} at resolution {r}", rp))
        if segs and dist(pts[-1], p0) > 1e-5:
            out.append((f"{shape}:does-not-close:after-another-shape", f"circle R{R} traced after {olabel} ends at {pts[-1]} instead of {p0}", rp))
        return out, len(segs)
    # monotonicity: halving the resolution never yields fewer segments
    label, builder = other_shapes()[idx] if kind == "mono-other" else (constant_speed_cases(tier)[idx][0], constant_speed_cases(tier)[idx][1])
    counts = []
    for res in (resolution, resolution / 2, resolution / 4):
        r, shape, exc, verts, segs = trace_lengths(builder, res, direction, mode, units)
        if exc is not None:
            return [(f"{shape}:raised", f"{label} at resolution {res}: {exc!r}", {"kind": kind, "index": idx, "resolution": res})], 0
        counts.append(len(segs))
    rp = {"kind": kind, "index": idx, "label": label, "resolution": resolution, "direction": direction, "mode": mode, "units": units}
    if not (counts[0] <= counts[1] <= counts[2]):
        out.append((f"{shape}:finer-resolution-fewer-segments", f"{label}: segment counts {counts} for resolutions {resolution}, {resolution / 2}, {resolution / 4}", rp))
    return out, sum(counts)


def run(tier, seed):
    res = Result("exploration")
    cases = constant_speed_cases(tier)
    items = []
    # resolutions above 10 units: large-format work; below 0.005: inch work (0.004 in = 0.1 mm) and fine engraving
    res_list = [1.0, 0.1, 20.0, 40.0, 0.004] + ([0.01, 12.5, 0.0005] if tier == "thorough" else [])
    for idx, (label, b, L, R) in enumerate(cases):
        for r in res_list:
            ratio = L / r
            # quick: up to 4000 segments per trace, and up to 20000 for full circles and three-turn helices (long jobs)
            cap = 40000 if tier == "thorough" else (20000 if label.startswith(("circle", "helix")) and "turns1" not in label else 4000)
            if ratio > cap or r > R:
                continue
            items.append(("speed", idx, r, "clockwise" if idx % 2 else "counter", "absolute", None, tier))
            if ratio <= 400:
                items.append(("speed", idx, r, "counter" if idx % 2 else "clockwise", "relative", "in", tier))
        if R == 10.0 and ("sweep90 dzNone" in label or label in ("circle R10.0", "arc_radius R10.0 ratio0.3 sign1", "helix R10.0 turns1 dz8.0")):
            for r in (0.02, 1.0):
                items.append(("speed-far", idx, r, "clockwise", "absolute", None, tier))
        if L <= 700:
            items.append(("mono-speed", idx, 1.0 if R >= 1 else 0.5, "clockwise", "absolute", None, tier))
        elif R >= 1000 and L <= 7000:
            items.append(("mono-speed", idx, 40.0, "clockwise", "absolute", None, tier))
    for idx, (label, b, L, R) in enumerate(cases):
        if label.startswith("circle"):
            items.append(("live-change", idx, min(R, 2.0), "clockwise", "absolute", None, tier))
            items.append(("live-change", idx, min(R, 2.0), "counter", "relative", None, tier))
    # curves tighter than the resolution: many turns of a narrow helix still get length / resolution segments
    for idx, (label, b, L, R) in enumerate(cases):
        if label in ("helix R0.05 turns3 dzNone", "helix R1.0 turns3 dzNone", "helix R10.0 turns3 dz8.0"):
            items.append(("speed", idx, 2.5 * R, "clockwise", "absolute", None, tier))       # diameter < 0.9 resolution units
            items.append(("speed", idx, 3.0 * R, "counter", "relative", None, tier))
    for idx, (label, builder, L, R) in enumerate(cases):
        if R in (1.0, 10.0) and ("sweep90" in label or "circle" in label):
            for dp, r in ((1, 0.16), (1, 0.14), (0, 0.35), (3, 0.0375), (2, 0.125)):
                items.append(("precision", idx, r, "clockwise" if dp % 2 else "counter", "absolute" if idx % 2 else "relative", str(dp), tier))
    items.append(("units-switch", 0, 0.5, "clockwise", "absolute", "in", tier))
    items.append(("units-switch", 0, 0.02, "clockwise", "absolute", "mm", tier))
    for idx, _ in enumerate(other_shapes()):
        items.append(("after-other-shape", idx, 0.25, "clockwise", "absolute", None, tier))
        items.append(("after-other-shape", idx, 0.1, "counter", "relative", None, tier))
    for idx, _ in enumerate(other_shapes()):
        for r in (2.0, 0.5):
            items.append(("mono-other", idx, r, "counter", "absolute", None, tier))
            items.append(("mono-other", idx, r, "clockwise", "relative", "in", tier))
    results = pmap(_work, items, chunksize=1)
    nseg = 0
    for out, n in results:
        nseg += n
        for sig, msg, rp in out:
            res.add(Violation(sig, msg, rp))
    ratios = sorted({round(math.log10(max(cases[i[1]][2] / i[2], 1e-9)), 0) for i in items if i[0] in ("speed", "speed-far")})
    res.coverage = {
        "evaluations": len(items), "distinct_nontrivial": len(items),
        "rule": ("grid of constant-speed shapes (arc incl. helical and steep/shallow ones, arc_radius minor/major/semicircle, circle, constant-radius helix) x radius {1,10,100} x sweep x "
                 f"resolution {res_list}, in millimetres/absolute and inches/relative; per case: longest segment <= 1.02 r, interior segments >= 0.88 chord(0.9 r) when R >= 5 r, segment count "
                 "within [L/(1.02 r) - 1, L/(0.88 r) + 2] for the closed-form length L, sagitta bound; plus for every shape (also spiral, varying helix, thread, splines) the segment counts at "
                 "r, r/2, r/4 must be non-decreasing; r is read from state.resolution at trace time; every grid cell is a distinct case"),
        "exhaustive": True, "exhaustive_note": "the stated grid is enumerated completely; log10(length/resolution) decades covered: " + str(ratios),
        "segments_measured": nseg,
        "samples": [{"kind": i[0], "label": (cases[i[1]][0] if i[0] != "mono-other" else other_shapes()[i[1]][0]), "resolution": i[2], "mode": i[4], "units": i[5]} for i in (items[0], items[len(items) // 2], items[-1])],
    }
    res.assumptions = ["factors 1.02 / 0.88 / 0.9 encode 'about one resolution' and 'about 0.9 resolution'", "not demanded: that a units switch preserves the physical resolution"]
    return res


def replay(body):
    rp = body["replay"]
    tier = body.get("tier", "thorough")
    out, _ = _work((rp["kind"], rp["index"], rp["resolution"], rp.get("direction", "clockwise"), rp.get("mode", "absolute"), rp.get("units"), tier))
    return {"violations": [(s, m) for s, m, _ in out]}
