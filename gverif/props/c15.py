"""C15 - Streamed print jobs arrive complete, in order and checksummed (E2)."""

import itertools
import re

from ..common import Result, Violation, pmap, digest, debug_logging
from ..oracles.firmware import LineFirmware, xor_checksum, N_RE
from .. import engine_sched as ES
from ..printrun_harness import Execution, PC, install_line_points

from gscrib.printrun import gcoder

JOBS = {
    "J3": ["G1 X1 F100", "; only a comment", "G1 X2 ; trailing comment", "G1 (inline) X3"],
    "J2": ["G28", "M105 ; poll"],
    "J4": ["G1 X1", "G1 X2", "; c", "G1 X3", "G1 X4 (last)"],
    # several layers with a z-hop that returns to an earlier height (lines are appended to an already populated layer)
    # a non-ASCII payload (LCD message): the checksum must be the one the firmware computes over the bytes it receives
    "J9": ["M117 Héllo ∅", "G1 X1 ; fin"],      # (an even number of Latin-1 letters would cancel out in the XOR)
    # several bracketed comments on one line, code between them, and a line made of comments only
    "J10": ["G0 X0 Y0 (rapid to origin) Z5 (clearance plane)", "(op 10) G1 Z-1 F100 (plunge)", "(setup)(sheet 2)", "G1 X1 (a) Y2 (b) ; c (d)",
            "G1 X9 ;@ seam", "G1 X8 ; see ;@pause"],
    # a host-command line (ignored by the sender) in the middle of the job
    "J11": ["G1 X1", ";@notify layer done", "G1 X2", "; plain comment", ";@unknown", "G1 X3"],
    # three layers at rising heights (edited with prepend_to_layer before streaming)
    "J12": ["G1 Z0.2", "G1 X1 E1", "G1 Z0.4", "G1 X2 E2", "G1 Z0.6", "G1 X3 E3", "M84"],
    "J8": ["G1 Z0.2", "G1 X1 E1", "G1 Z0.6", "G0 X5", "G1 Z0.2", "G1 X6 E2", "G1 Z0.4", "G1 X7 E3"],
}
COMMENT_RE = re.compile(r"\([^()]*\)|;.*")


def expected_commands(job):
    out = []
    for l in job:
        t = COMMENT_RE.sub("", l).strip()
        if t:
            out.append(t)
    return out


def run_execution(cfg, prefix, record=False):
    if cfg.get("debug_log"):
        with debug_logging():              # the application runs the sender with DEBUG logging switched on
            return _run_execution(cfg, prefix, record)
    return _run_execution(cfg, prefix, record)


def _run_execution(cfg, prefix, record=False):
    fw = LineFirmware(cfg["dialect"], cfg["corrupt"], greeting=cfg["greeting"])
    ex = Execution(prefix, fw, eager_env=cfg["eager"], line_points=cfg["line_points"], horizon=cfg.get("horizon", 12000),
                   record_points=record)
    marks = {}

    def body():
        sleep = ex.shims.time.sleep
        p = PC.printcore()
        if cfg.get("tcp_streaming_mode"):
            p.tcp_streaming_mode = True       # a documented switch that only matters for devices with flow control
        marks["errors"] = []
        p.errorcb = marks["errors"].append
        p.connect("fake", 115200)
        while not p.online:
            sleep(0.01)
        marks["jobs"] = []
        for jname in cfg["job"].split("+"):
            jm = {"name": jname, "job_start": len(ex.dev.log), "accepted_start": len(fw.accepted)}
            marks["jobs"].append(jm)
            gc = gcoder.GCode(list(JOBS[jname]))
            for extra in cfg.get("footer", ()):
                gc.append(extra)                 # lines added to the job after it was built (a footer, a late command)
            if cfg.get("prepend"):
                # the application edits one layer of the job before streaming it (commands put in front of that layer)
                cmds, which = cfg["prepend"]
                layers = [[ln.raw for ln in layer] for layer in gc.all_layers]
                populated = [i for i, layer in enumerate(layers) if layer]
                k = populated[-1] if which == "last" else populated[len(populated) // 2]
                flat_before = [raw for layer in layers[:k] for raw in layer]
                jm["expected_raw"] = flat_before + list(cmds) + [raw for layer in layers[k:] for raw in layer]
                if [raw for layer in layers for raw in layer] != list(JOBS[jname]):
                    raise AssertionError("harness: the layers of the unedited job are not the job in order; pick a job with rising heights")
                gc.prepend_to_layer(list(cmds), k)
            if cfg.get("rewrite"):
                # one layer of the job is replaced by other commands (fewer or more than it had) before streaming
                cmds, which = cfg["rewrite"]
                layers = [[ln.raw for ln in layer] for layer in gc.all_layers]
                populated = [i for i, layer in enumerate(layers) if layer]
                k = populated[0] if which == "first" else populated[len(populated) // 2]
                if [raw for layer in layers for raw in layer] != list(JOBS[jname]):
                    raise AssertionError("harness: the layers of the unedited job are not the job in order; pick a job with rising heights")
                jm["expected_raw"] = [raw for layer in layers[:k] for raw in layer] + list(cmds) + [raw for layer in layers[k + 1:] for raw in layer]
                gc.rewrite_layer(list(cmds), k)
            jm["started"] = p.startprint(gc)
            if cfg.get("poll"):
                # the application polls the temperature with a priority command while the job is running
                while p.printing and p.queueindex < cfg["poll"]:
                    sleep(0.01)
                p.send_now("M105")
            if cfg.get("second_start"):
                # the application asks for another print while this one is mid-stream: the call is refused (documented)
                # and must not disturb the running job
                while p.printing and p.queueindex < 2:
                    sleep(0.01)
                jm["second_start"] = p.startprint(gcoder.GCode(["G28", "M105"]))
            while p.printing:
                sleep(0.01)
            jm["print_end"] = len(ex.dev.log)
            # drain: let every reply still in flight arrive and be handled
            idle = 0
            while idle < 3:
                sleep(0.01)
                idle = idle + 1 if not (ex.dev.pending or ex.dev.rx or p.printing) else 0
            jm["drained"] = len(ex.dev.log)
            jm["accepted_end"] = len(fw.accepted)
        marks["job_start"] = marks["jobs"][0]["job_start"]
        p.disconnect()
        marks["done"] = True
    with ex:
        leaked = ex.run(body)
    return ex, marks, leaked


def check_execution(cfg, ex, marks, leaked):
    """Returns list of (sig, msg)."""
    P = []
    S, fw, dev = ex.S, ex.fw, ex.dev
    jobs = marks.get("jobs") or [{"name": cfg["job"].split("+")[0], "job_start": marks.get("job_start", 0), "accepted_start": 0}]
    # threads that did not unwind in time after an abort are a property of the harness and of machine load,
    # never a verdict about gscrib: they are counted by the caller, not reported
    for t in S.threads:
        if t.exc is not None:
            P.append((f"thread-crashed:{t.name}", f"{t.name} died with {t.exc!r}"))
    for e in marks.get("errors", []):
        if "SchedAbort" in str(e):                # the scheduler unwinding a stuck execution, not a host failure
            continue
        if not str(e).startswith("Error"):        # firmware 'Error:...' lines are logged too; anything else is a host-side failure
            P.append(("host-error-logged", f"printcore logged: {str(e)[:300]}"))
            break
    if S.status != "done":
        P.append((f"no-termination:{S.status}", f"execution ended as {S.status} after {S.steps} steps; threads: "
                  + ", ".join(f"{t.name}={t.status}@{t.label}" for t in S.threads)))
    if any(k == "tx-malformed" for k, _ in dev.log):
        P.append(("wire:malformed-transmission", "a transmission is not exactly one newline-terminated line"))
    for ji, jm in enumerate(jobs):
        last_job = ji == len(jobs) - 1
        end = jobs[ji + 1]["job_start"] if not last_job else len(dev.log)
        want = expected_commands(list(JOBS[jm["name"]]) + list(cfg.get("footer", ())))
        if jm.get("expected_raw"):
            want = expected_commands(jm["expected_raw"])
        accepted = fw.accepted[jm["accepted_start"]: (jm.get("accepted_end") if jm.get("accepted_end") is not None else len(fw.accepted))]
        P += check_job(cfg, S, fw, dev, marks, jm["job_start"], end, want, accepted, complete_expected=("drained" in jm), tag=("" if ji == 0 else f":job{ji + 1}"))
    return P


def check_job(cfg, S, fw, dev, marks, start, end, want, accepted, complete_expected, tag):
    P = []
    # ---- wire format
    tx = [(i, l) for i, (k, l) in enumerate(dev.log) if k == "tx" and i < end]
    delivered_requests = []   # (log index, n) for every 'Resend: n' delivered to the host
    for i, (k, l) in enumerate(dev.log):
        if i < start or i >= end:
            continue
        if k == "deliver" and (l.lower().startswith("resend") or l.startswith("rs")):
            delivered_requests.append((i, int(re.findall(r"-?\d+", l)[0])))
    numbered = []
    first_numbered = None
    first_text = {}
    for i, l in tx:
        if i < start or not l.startswith("N"):
            continue
        m = N_RE.match(l)
        if not m:
            P.append(("wire:bad-numbered-line", f"transmission {l!r} is not N<k> <command>*<checksum>"))
            continue
        k, body, cs = int(m.group(1)), m.group(2), int(m.group(3))
        if xor_checksum(f"N{k} {body}") != cs:
            P.append(("wire:wrong-checksum", f"transmission {l!r}: checksum should be {xor_checksum(f'N{k} {body}')}"))
        if first_numbered is None:
            first_numbered = l
            if not (k == -1 and body.startswith("M110")):
                P.append(("wire:no-M110-reset", f"first numbered transmission is {l!r}"))
        if "M110" in body:
            continue
        if ";" in body or "(" in body:
            P.append(("wire:comment-transmitted", f"transmission {l!r} carries a comment"))
        if k in first_text and first_text[k] != l:
            P.append(("wire:retransmission-differs", f"line {k} first sent as {first_text[k]!r}, later as {l!r}"))
        first_text.setdefault(k, l)
        if 0 <= k < len(want) and body != want[k]:
            P.append(("wire:wrong-command-for-number", f"line {k} carries {body!r}, job line {k} is {want[k]!r}"))
        numbered.append((i, k))
    # a resend request the host has *read* is honoured: line n is among the next three numbered transmissions (the sender may be
    # one line ahead when the request arrives). Requests after which fewer than three numbered lines follow are left to the
    # end-of-job clauses below.
    rx_requests = [(i, int(re.findall(r"-?\d+", l)[0])) for i, (k, l) in enumerate(dev.log)
                   if start <= i < end and k == "rx" and (l.lower().startswith("resend") or l.startswith("rs")) and re.findall(r"-?\d+", l)]
    for i, n in rx_requests:
        following = [k for (j, k) in numbered if j > i][:3]
        if len(following) == 3 and n not in following and 0 <= n < len(want):
            P.append(("wire:resend-request-not-honoured", f"the host read a request to resend line {n} (log position {i}); the next numbered transmissions are {following}"))
            break
    # runs of consecutive numbers; a new run must start at a number requested by a delivered Resend
    prev = None
    for i, k in numbered:
        if prev is None:
            if k != 0:
                P.append(("wire:first-line-number", f"first job line is numbered {k}"))
        elif k != prev + 1:
            asked = [n for (j, n) in delivered_requests if j < i]
            if k not in asked:
                P.append(("wire:restart-not-requested", f"transmission jumps from N{prev} to N{k} but the firmware had requested {asked}"))
        prev = k
    # ---- safety + completion
    if accepted != want[:len(accepted)]:
        P.append(("accepted-not-a-prefix" + tag, f"firmware executed {accepted}, job is {want}"))
    elif S.status == "done" and complete_expected and accepted != want:
        # known-finding shape: the host ran one line ahead because of an extra ok (Marlin's ok after Resend, or the ok of
        # the probing G4 P0 behind a greeting), the print thread had already transmitted its last line when the Resend
        # arrived, and nobody served it.  Anything else (a Resend ignored while lines were still being sent, a crashed
        # thread, a different firmware dialect) is reported as a plain violation.
        last_numbered = max([i for i, k in numbered], default=-1)
        unserved = [n for (j, n) in delivered_requests if j > last_numbered and n >= len(accepted)]
        # dialect D (Repetier wording) also sends an ok behind its Resend line: the same mechanism as dialect A
        extra_ok = "dialect=A" if (cfg["dialect"] in ("A", "D") and cfg["corrupt"]) else \
                   ("greeting=start" if cfg["greeting"] == "start" else "none")
        crashed = any(t.exc is not None for t in S.threads) or any(not str(e).startswith("Error") and "SchedAbort" not in str(e) for e in marks.get("errors", []))
        if unserved and extra_ok != "none" and not crashed:
            P.append((f"tail-lost:unserved-resend:{extra_ok}", f"job {want}: firmware executed only {accepted}; Resend {unserved} was never served "
                      f"(corrupted transmissions {sorted(cfg['corrupt'])}, dialect {cfg['dialect']}, greeting {cfg['greeting']})"))
        else:
            P.append(("job-incomplete" + tag, f"job {want}: firmware executed only {accepted} (corrupt {sorted(cfg['corrupt'])}, dialect {cfg['dialect']}, greeting {cfg['greeting']})"))
    return P


import multiprocessing as _mp

SPLIT_STATUS = []                # status of the default execution of every configuration split so far (parent process)

STUCK = _mp.Value("i", 0)        # executions that ran into the horizon / a deadlock so far (shared with the forked workers)
STUCK_LIMIT = 400


def _work(item):
    """item = (cfg, root prefix, bound, cap): explores the subtree below `root`."""
    cfg, root, bound, cap = item
    if STUCK.value >= STUCK_LIMIT:
        # hundreds of executions already failed to terminate (every one costs a full horizon): the verdict is in, the rest of
        # the plan is skipped and reported as not covered
        return [], 0, True, set(), 0, {}
    install_line_points()
    found = {}
    stats = {"points": 0, "wires": set(), "statuses": {}}

    def run_one(prefix):
        ex, marks, leaked = run_execution(cfg, prefix)
        stats["points"] += ex.S.steps
        stats["wires"].add(digest(ex.dev.log))
        stats["statuses"][ex.S.status] = stats["statuses"].get(ex.S.status, 0) + 1
        if ex.S.status != "done":
            with STUCK.get_lock():
                STUCK.value += 1
        problems = check_execution(cfg, ex, marks, leaked)
        for sig, msg in problems:
            if sig not in found:
                found[sig] = [msg, list(prefix), 0]
            found[sig][2] += 1
        return ex.S.trace, bool(problems)
    n, capped = ES.explore(run_one, bound, max_executions=cap, root=root)
    out = [(sig, msg, {"cfg": cfg, "prefix": prefix}, cnt) for sig, (msg, prefix, cnt) in found.items()]
    return out, n, capped, stats["wires"], stats["points"], stats["statuses"]


def split(cfg, bound, cap):
    """Work items for one configuration: the default execution plus one item per first deviation, so that a
    single deep search is spread over all cores. Also checks replay determinism of the default schedule."""
    install_line_points()
    a, _, _ = run_execution(cfg, [])
    SPLIT_STATUS.append(a.S.status)
    if a.S.status != "done":
        return [(cfg, [], 0, None)], False        # the default execution does not terminate: _work reports it, nothing to refine
    b, _, _ = run_execution(cfg, [])
    nondet = a.dev.log != b.dev.log or a.S.trace != b.S.trace
    items = [(cfg, [], 0, None)]
    failing_default = bool(check_execution(cfg, a, {"errors": []}, []) and a.S.status != "done")
    if bound >= 1 and not failing_default:
        trace = a.S.trace
        for i in range(len(trace)):
            for alt in range(1, trace[i][1]):
                items.append((cfg, [c for c, _, _ in trace[:i]] + [alt], bound, cap))
        if cap is not None:
            # the cap is a budget for the whole configuration: it is shared by the sub-searches
            per = max(200, cap // max(1, len(items) - 1))
            items = [items[0]] + [(c, r, b, per) for c, r, b, _ in items[1:]]
    return items, nondet


def fault_patterns(max_index, max_faults):
    out = [()]
    for k in range(1, max_faults + 1):
        out += list(itertools.combinations(range(max_index), k))
    return out


def plan(tier):
    items = []
    if tier == "quick":
        for greeting in (None, "start"):
            for corrupt in fault_patterns(5, 2):
                base = {"job": "J3", "dialect": "C", "greeting": greeting, "eager": False, "corrupt": corrupt}
                items.append(({**base, "line_points": True}, 0, None))
                if corrupt == (1,):
                    items.append(({**base, "line_points": False}, 1, None))
        for dialect in ("A", "B"):
            for corrupt in ((), (1,), (2,)):
                base = {"job": "J3", "dialect": dialect, "greeting": None, "eager": False, "corrupt": corrupt, "tcp_streaming_mode": True}
                items.append(({**base, "line_points": True}, 0, None))
        for dialect in ("A", "B"):
            for corrupt in ((), (0,)):
                base = {"job": "J9", "dialect": dialect, "greeting": None, "eager": False, "corrupt": corrupt}
                items.append(({**base, "line_points": True}, 0, None))
        for dialect in ("A", "B"):
            for corrupt in ((), (2,)):
                base = {"job": "J3", "dialect": dialect, "greeting": None, "eager": False, "corrupt": corrupt, "debug_log": True}
                items.append(({**base, "line_points": True}, 0, None))
                items.append(({**base, "line_points": False}, 1, None))
        for dialect in ("A", "B"):
            for corrupt in ((), (2,), (4,)):
                base = {"job": "J4", "dialect": dialect, "greeting": None, "eager": False, "corrupt": corrupt, "second_start": True}
                items.append(({**base, "line_points": True}, 0, None))
                items.append(({**base, "line_points": False}, 1, None))
        for dialect in ("A", "B"):
            for corrupt, poll in (((), 1), ((2,), 2), ((3,), 3), ((3,), 4), ((3,), 5), ((3, 4), 5), ((1,), 1)):
                base = {"job": "J4", "dialect": dialect, "greeting": None, "eager": False, "corrupt": corrupt, "poll": poll}
                items.append(({**base, "line_points": True}, 0, None))
                items.append(({**base, "line_points": False}, 1, None))
                if poll >= 4:
                    items.append(({**base, "line_points": True}, 1, None))
        for dialect in ("A", "B"):
            for corrupt in ((), (2,), (5,)):
                base = {"job": "J4", "dialect": dialect, "greeting": None, "eager": False, "corrupt": corrupt, "footer": ["M104 S0 ; cool down", "G28 X0", "M84"]}
                items.append(({**base, "line_points": True}, 0, None))
        for dialect, which in (("A", "last"), ("B", "middle"), ("A", "middle"), ("B", "last")):
            for corrupt in ((), (3,)):
                base = {"job": "J12", "dialect": dialect, "greeting": None, "eager": False, "corrupt": corrupt, "prepend": (["M117 layer", "M106 S255"], which)}
                items.append(({**base, "line_points": True}, 0, None))
        for dialect, which, cmds in (("A", "first", ["G1 Z0.25"]), ("B", "middle", ["G1 Z0.4", "G1 X2 E2", "G1 X2.5 E2.5", "M106 S128"]), ("A", "middle", ["G1 Z0.45"])):
            for corrupt in ((), (2,)):
                base = {"job": "J12", "dialect": dialect, "greeting": None, "eager": False, "corrupt": corrupt, "rewrite": (cmds, which)}
                items.append(({**base, "line_points": True}, 0, None))
        for corrupt in ((), (0,), (1,), (2,), (1, 2)):
            base = {"job": "J3", "dialect": "D", "greeting": None, "eager": False, "corrupt": corrupt}
            items.append(({**base, "line_points": True}, 0, None))
            if len(corrupt) == 1:
                items.append(({**base, "line_points": False}, 1, None))
        for corrupt in ((0,), (1,), (3,)):
            base = {"job": "J8", "dialect": "D", "greeting": None, "eager": False, "corrupt": corrupt}
            items.append(({**base, "line_points": True}, 0, None))
        for dialect in ("A", "B"):
            for corrupt in ((), (1,), (2,)):
                base = {"job": "J11", "dialect": dialect, "greeting": None, "eager": False, "corrupt": corrupt}
                items.append(({**base, "line_points": True}, 0, None))
        for dialect in ("A", "B"):
            for corrupt in ((), (1,)):
                base = {"job": "J10", "dialect": dialect, "greeting": None, "eager": False, "corrupt": corrupt}
                items.append(({**base, "line_points": True}, 0, None))
        for dialect in ("A", "B"):
            for corrupt in ((), (5,)):
                base = {"job": "J8", "dialect": dialect, "greeting": None, "eager": False, "corrupt": corrupt}
                items.append(({**base, "line_points": True}, 0, None))
        # two jobs back to back on one connection: the second one starts from the state the first one left behind
        for dialect in ("A", "B", "C"):
            for greeting in (None, "start"):
                for corrupt in fault_patterns(6, 1):
                    base = {"job": "J3+J2", "dialect": dialect, "greeting": greeting, "eager": False, "corrupt": corrupt}
                    items.append(({**base, "line_points": True}, 0, None))
                    if corrupt in ((), (4,)) and greeting is None:
                        items.append(({**base, "line_points": False}, 1, None))
        for dialect in ("A", "B"):
            for greeting in (None, "start"):
                for eager in (False, True):
                    for corrupt in fault_patterns(5, 2):
                        base = {"job": "J3", "dialect": dialect, "greeting": greeting, "eager": eager, "corrupt": corrupt}
                        items.append(({**base, "line_points": True}, 0, None))
                        if len(corrupt) <= 1:
                            items.append(({**base, "line_points": False}, 1, None))
                        if (corrupt in ((), (1,), (2,)) and not eager) or (corrupt == () and eager):
                            # the fast-device policy needs its own one-deviation search: a reply handled *immediately*
                            # is two deviations away from the slow-device default
                            items.append(({**base, "line_points": True}, 1, None))
                        if corrupt == (1,) and not eager and greeting is None:
                            items.append(({**base, "line_points": False}, 2, None))
    else:
        for dialect in ("A", "B", "C"):
            for greeting in (None, "start"):
                for eager in (False, True):
                    for corrupt in fault_patterns(8, 2):
                        base = {"job": "J3+J4", "dialect": dialect, "greeting": greeting, "eager": eager, "corrupt": corrupt}
                        items.append(({**base, "line_points": True}, 0, None))
                        if len(corrupt) <= 1 and not eager:
                            items.append(({**base, "line_points": False}, 1, None))
        for job in ("J3", "J4", "J2", "J8", "J9", "J10", "J11"):
            for dialect in ("A", "B", "C"):
                for greeting in (None, "start"):
                    for eager in (False, True):
                        for corrupt in fault_patterns(8 if job not in ("J2", "J9", "J10", "J11") else 4, 3 if job == "J3" else (1 if job in ("J8", "J9", "J10", "J11") else 2)):
                            base = {"job": job, "dialect": dialect, "greeting": greeting, "eager": eager, "corrupt": corrupt}
                            items.append(({**base, "line_points": True}, 0, None))
                            if job == "J3" and greeting is None and corrupt in ((), (1,), (2,)) and dialect != "C":
                                # measured: up to ~100 000 executions (10 ms each) per configuration at two deviations
                                items.append(({**base, "line_points": False}, 2, None))
                            if len(corrupt) <= 1 and not (eager and job != "J3"):
                                items.append(({**base, "line_points": True}, 1, None))
                            if job == "J3" and corrupt in ((), (1,), (2,)) and not eager and dialect != "C":
                                items.append(({**base, "line_points": False}, 3, 30000))
                                items.append(({**base, "line_points": True}, 2, 25000))
    return items


def run(tier, seed):
    res = Result("model_checking")
    plan_items = plan(tier)
    work, owner = [], []
    stuck_defaults = 0
    for pi, (cfg, bound, cap) in enumerate(plan_items):
        if stuck_defaults >= 6:
            # the default executions of several configurations do not even terminate (each one costs a full horizon, and this
            # phase runs in the parent process): the rest of the plan is left out - the configurations split so far carry the verdict
            res.harness_errors = res.harness_errors      # (nothing to add: the violations are reported below)
            skipped_plan = len(plan_items) - pi
            break
        items, nondet = split(cfg, bound, cap)
        if SPLIT_STATUS and SPLIT_STATUS[-1] != "done":
            stuck_defaults += 1
        if nondet:
            res.harness_errors.append(f"default schedule of {cfg} is not reproducible")
        work += items
        owner += [pi] * len(items)
    else:
        skipped_plan = 0
    order = sorted(range(len(work)), key=lambda i: -(work[i][2] * 2 + work[i][0]["line_points"]))
    results = pmap(_work, [work[i] for i in order], chunksize=1)
    execs = points = 0
    statuses = {}
    capped = []
    by_bound = {}
    wires_by_cfg = {}
    for i, (out, n, was_capped, ws, npts, st) in zip(order, results):
        cfg, root, bound, cap = work[i]
        pi = owner[i]
        execs += n
        points += npts
        wires_by_cfg.setdefault(pi, set()).update(ws)
        for k, v in st.items():
            statuses[k] = statuses.get(k, 0) + v
        pb = plan_items[pi][1]
        key = f"bound={pb},{'line' if cfg['line_points'] else 'sync'}-level"
        by_bound[key] = by_bound.get(key, 0) + n
        if was_capped:
            capped.append({"cfg": cfg, "root": root, "cap": cap})
        for sig, msg, rp, cnt in out:
            for _ in range(min(cnt, 3)):
                res.add(Violation(sig, msg, rp))
    wires = sum(len(v) for v in wires_by_cfg.values())
    items = plan_items
    if statuses.get("stuck"):
        res.harness_errors.append(f"{statuses['stuck']} executions got stuck (scheduler lost the baton)")
    res.coverage = {
        "states": wires, "transitions": points, "traces_validated_against_impl": execs,
        "evaluations": execs, "distinct_nontrivial": wires,
        "rule": ("stateless exploration of the real printcore threads (harness, read, print, send) + fake serial device + line-number/checksum firmware model under a "
                 "deterministic scheduler; per configuration (job x firmware dialect A/B x greeting none/start x default policy lazy/eager device x set of corrupted job-line "
                 "transmissions) every schedule with at most `bound` deviations from the default is executed to completion; scheduling points at every synchronisation/device "
                 "operation (sync-level) and additionally at every source line touching shared attributes (line-level); states = distinct interleaved wire logs, transitions = "
                 "scheduling steps, executions by bound in 'executions_by_bound'"),
        "exhaustive": not capped and not skipped_plan,
        "plan_items_skipped_after_non_terminating_defaults": skipped_plan,
        "exhaustive_note": ("every schedule within the stated deviation bound of every listed configuration was run" if not capped else
                            "some configurations hit their execution cap (listed in caps_hit); below the cap the DFS order covers all schedules with fewer deviations first"),
        "caps_hit": capped, "configurations": len(items), "executions_by_bound": by_bound, "termination_statuses": statuses,
        "samples": sample_executions(items),
    }
    res.assumptions = ["thread switches happen only at scheduling points (never inside a source line)", "firmware model: oracles/firmware.py (Marlin-style); corruption = set of job-line transmission indices",
                       "serial read time-outs and sleeps are modelled as yields; time-outs of Event.wait never fire"]
    return res


def sample_executions(plan_items):
    """Two executions written out: the default schedule of a faulty configuration and one of its one-deviation neighbours."""
    out = []
    pick = [p for p in plan_items if p[1] >= 1][:1] or plan_items[:1]
    for cfg, bound, cap in pick:
        for prefix in ([], None):
            if prefix is None:
                ex0, _, _ = run_execution(cfg, [])
                tr = ex0.S.trace
                i = next((i for i in range(len(tr) // 2, len(tr)) if tr[i][1] > 1), None)
                if i is None:
                    continue
                prefix = [c for c, _, _ in tr[:i]] + [1]
            ex, marks, _ = run_execution(cfg, prefix)
            out.append({"cfg": cfg, "schedule_prefix_nondefault_choices": [(i, c) for i, c in enumerate(prefix) if c], "choice_points": len(ex.S.trace),
                        "status": ex.S.status, "wire": [list(x) for x in ex.dev.log][:40]})
    return out


def replay(body):
    rp = body["replay"]
    cfg = dict(rp["cfg"])
    cfg["corrupt"] = tuple(cfg["corrupt"])
    install_line_points()
    ex, marks, leaked = run_execution(cfg, rp["prefix"])
    P = check_execution(cfg, ex, marks, leaked)
    return {"wire": [list(x) for x in ex.dev.log], "accepted": ex.fw.accepted, "status": ex.S.status, "violations": P}
