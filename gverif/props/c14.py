"""C14 - Every writer receives every line, once, in order, byte for byte (E1)."""

import contextlib
import os
import shutil
import tempfile

from ._base import run_configs, replay_history
from ..harness import Recorder
from ..common import import_gscrib, digest, debug_logging

import_gscrib()
from gscrib import GCodeBuilder                # noqa: E402
from gscrib.writers import FileWriter          # noqa: E402

EMITS = {
    "blank": (lambda g: g.write(""), ""),            # an empty statement is a (blank) line like any other
    "move": (lambda g: g.move(x=1.5), "G1 X1.5"),
    "comment": (lambda g: g.comment("é ü ∅"), "; é ü ∅"),
    "feed": (lambda g: g.set_feed_rate(100), "F100"),
    # longer than the default file buffer: part of the line reaches the disk before flush()
    "long": (lambda g: g.write("G1 X2 ; " + "ÿ" * 5000), "G1 X2 ; " + "ÿ" * 5000),
}


class State:
    copyable = False

    def __init__(self, names, ending):
        self.dir = tempfile.mkdtemp(prefix="gverif-c14-", dir="/dev/shm" if os.path.isdir("/dev/shm") and os.access("/dev/shm", os.W_OK) else None)
        self.ending = ending
        cfgpath = os.path.join(self.dir, "cfgpath.gcode")
        for n in names:
            if n == "cfgpath" or n.startswith("path"):
                # an older, longer job already sits at every output path: a new session starts from an empty file
                with open(os.path.join(self.dir, n + ".gcode"), "wb") as old:
                    old.write(b"; previous job\nG1 X999\n" * 60)
        self.cfgmem = None
        if "cfgmem" in names:
            # the output option given as a caller-owned in-memory stream inside a GConfig instance
            import io
            from gscrib.config import GConfig
            self.cfgmem = io.BytesIO()
            self.g = GCodeBuilder(GConfig(line_endings=ending, output=self.cfgmem))
        elif "cfgpath" in names:
            self.g = GCodeBuilder(line_endings=ending, output=cfgpath)
        else:
            self.g = GCodeBuilder(line_endings=ending)
        self.end = ending.encode().decode("unicode-escape").encode("utf-8")
        self.writers, self.kind, self.path, self.stream = {}, {}, {}, {}
        for n in names:
            path = os.path.join(self.dir, n + ".gcode")
            if n == "cfgmem":
                self.writers[n], self.kind[n], self.path[n], self.stream[n] = self.g.get_writer(0), "stream", None, self.cfgmem
            elif n == "cfgpath":
                # the file writer the builder creates itself from its `output` option (registered from the start)
                self.writers[n], self.kind[n], self.path[n] = self.g.get_writer(0), "path", path
            elif n.startswith("path"):
                self.writers[n], self.kind[n], self.path[n] = FileWriter(path), "path", path
            elif n == "text":
                f = open(path, "w", encoding="utf-8", newline="")
                self.writers[n], self.kind[n], self.path[n], self.stream[n] = FileWriter(f), "stream", path, f
            elif n == "codecs":
                import codecs
                f = codecs.open(path, "w", "utf-8")          # a text stream that is not an io.TextIOBase subclass
                self.writers[n], self.kind[n], self.path[n], self.stream[n] = FileWriter(f), "stream", path, f
            elif n == "utf16":
                # a caller-owned text stream with another encoding: it must be handed the text, whatever it then writes to disk
                f = open(path, "w", encoding="utf-16", newline="")
                self.writers[n], self.kind[n], self.path[n], self.stream[n] = FileWriter(f), "stream", path, f
            elif n == "binary":
                f = open(path, "wb")
                self.writers[n], self.kind[n], self.path[n], self.stream[n] = FileWriter(f), "stream", path, f
            else:
                self.writers[n], self.kind[n] = Recorder(n), "recorder"
        # reference model
        self.registry = ["cfgpath"] if "cfgpath" in names else (["cfgmem"] if "cfgmem" in names else [])
        # a second builder with its own output lives next to this one and keeps writing
        self.other = GCodeBuilder(line_endings="\\r\\n")
        self.other_rec = Recorder("bystander")
        self.other.add_writer(self.other_rec)
        self.other_lines = 0
        self.log = {n: b"" for n in names}          # everything a writer should have received
        self.session = {n: b"" for n in names}      # path files: content of the current (or last) session
        self.open = {n: False for n in names}       # path files: session open (written since last disconnect)
        self.disconnects = {n: 0 for n in names}
        self.emits = 0
        self.last_rejected = False
        self.last_exc = None
        self.last_lines = []

    def snapshot(self):
        raise RuntimeError("not copyable")


class C14System:
    def __init__(self, names, ending, max_emits, formatters=False):
        self.names, self.ending, self.max_emits, self.formatters = names, ending, max_emits, formatters

    def fresh(self):
        return State(self.names, self.ending)

    def dispose(self, st):
        for f in st.stream.values():
            try:
                f.close()
            except Exception:   # noqa: BLE001
                pass
        for w in st.writers.values():
            try:
                w.disconnect()
            except Exception:   # noqa: BLE001
                pass
        shutil.rmtree(st.dir, ignore_errors=True)

    def ops(self, st):
        ops = []
        if getattr(st, "dead", False):
            return ops          # the caller has closed its streams and torn the builder down: end of this history
        for n in self.names:
            ops.append(["add_writer", [n]])
            ops.append(["remove_writer", [n]])
        if st.emits < self.max_emits:
            for e in EMITS:
                ops.append(["emit", [e]])
        ops += [["flush"], ["teardown"], ["teardown", [False]], ["teardown", ["with-block-ends"]], ["teardown", ["with-block-raises"]]]
        if any(st.kind[n] == "stream" and n != "cfgmem" for n in self.names):
            ops.append(["teardown", ["caller-closed-its-streams"]])
        if self.formatters:
            # the formatter object is replaced on the live builder (other line ending), or re-configured in place
            ops += [["set_formatter", ["\\r\\n"]], ["set_formatter", ["\\n"]], ["set_line_endings", ["\\r\\n"]], ["set_line_endings", ["\\n"]],
                    ["set_formatter", ["numbering"]]]
        return ops

    def read(self, st, n):
        if n == "cfgmem":
            return st.cfgmem.getvalue()
        try:
            with open(st.path[n], "rb") as f:
                data = f.read()
        except FileNotFoundError:
            return None
        if n == "utf16":
            try:
                return data.decode("utf-16").encode("utf-8")       # compared as text
            except UnicodeError:
                return b"<not UTF-16: " + data[:60] + b">"
        return data

    def step(self, st, op):
        P = []
        g = st.g
        name = op[0]
        exc = None
        try:
          with (debug_logging() if getattr(self, "debug_log", False) else contextlib.nullcontext()):
              if name == "add_writer":
                  g.add_writer(st.writers[op[1][0]])
                  if op[1][0] not in st.registry:
                      st.registry.append(op[1][0])
              elif name == "remove_writer":
                  g.remove_writer(st.writers[op[1][0]])
                  if op[1][0] in st.registry:
                      st.registry.remove(op[1][0])
              elif name == "emit":
                  fn, text = EMITS[op[1][0]]
                  line = text.encode("utf-8") + st.end
                  if getattr(st, "numbering", None) is not None:
                      st.numbering += 1
                      line = f"N{st.numbering} ".encode() + line
                  for n in st.registry:
                      st.log[n] += line
                      if st.kind[n] == "path":
                          if not st.open[n]:
                              st.session[n], st.open[n] = b"", True
                          st.session[n] += line
                  st.emits += 1
                  fn(g)
              elif name == "flush":
                  g.flush()
              elif name == "teardown" and len(op) > 1 and op[1] == ["caller-closed-its-streams"]:
                  # the usual `with open(...) as f:` block has ended: the caller's own streams are closed (which also pushes
                  # what they received to disk), then the builder is torn down
                  st.caller_closed = [n for n in self.names if st.kind[n] == "stream" and n != "cfgmem"]
                  for n in st.caller_closed:
                      st.stream[n].close()
                  st.dead = True
                  g.teardown()
              elif name == "teardown" and len(op) > 1 and op[1] in (["with-block-ends"], ["with-block-raises"]):
                  # the builder is used as a context manager: leaving the block (normally or through an exception raised in
                  # its body) is the documented way to clean up
                  if op[1] == ["with-block-ends"]:
                      g.__exit__(None, None, None)
                  else:
                      err = KeyError("body failed")
                      g.__exit__(KeyError, err, None)
              elif name == "teardown":
                  if len(op) > 1:
                      g.teardown(*op[1])
                  else:
                      g.teardown()
              elif name == "set_formatter" and op[1][0] == "numbering":
                  g.set_formatter(NumberingFormatter())
                  st.end, st.numbering = b"\n", 0
              elif name == "set_formatter":
                  fmt = DefaultFormatter()
                  fmt.set_line_endings(op[1][0])
                  g.set_formatter(fmt)
                  st.numbering = None
                  st.end = op[1][0].encode().decode("unicode-escape").encode("utf-8")
              elif name == "set_line_endings":
                  g.format.set_line_endings(op[1][0])
                  st.end = op[1][0].encode().decode("unicode-escape").encode("utf-8")
        except Exception as e:   # noqa: BLE001
            exc = e
        try:
            st.other.write("M117 bystander")
            st.other_lines += 1
        except Exception as e:      # noqa: BLE001
            P.append(("bystander-write-raised", f"a second builder's write raised {e!r} after {op}"))
        if b"".join(st.other_rec.new) != b"M117 bystander\r\n" * st.other_lines:
            P.append(("bystander-log-differs", f"after {op}: the second builder's own writer holds {b''.join(st.other_rec.new)[-80:]!r} ({st.other_lines} lines written through it)"))
        st.last_exc, st.last_rejected = exc, exc is not None
        if exc is not None:
            P.append((f"{name}-raised", f"{op} raised {exc!r} (registry {st.registry})"))
            return P
        # recorders: exactly once, in order, byte for byte - checked after every call
        for n in self.names:
            if st.kind[n] == "recorder":
                got = b"".join(st.writers[n].new)
                if got != st.log[n]:
                    P.append(("recorder-log-differs", f"after {op}: writer {n} received {got!r}, expected {st.log[n]!r}"))
        if name == "flush":
            for n in st.registry:
                if st.kind[n] == "path":
                    disk = self.read(st, n)
                    want = st.session[n] if (st.open[n] or disk is not None) else None
                    if st.open[n] and disk != st.session[n]:
                        P.append(("file-content-after-flush", f"after flush: {n} holds {disk!r}, lines written so far {st.session[n]!r}"))
                elif st.kind[n] == "stream":
                    disk = self.read(st, n)
                    if disk != st.log[n]:
                        P.append(("stream-content-after-flush", f"after flush: {n} holds {disk!r}, lines written so far {st.log[n]!r}"))
        if name == "teardown":
            for n in st.registry:
                if st.kind[n] == "path":
                    disk = self.read(st, n)
                    if st.open[n] and disk != st.session[n]:
                        P.append(("file-content-after-teardown", f"after teardown: {n} holds {disk!r}, expected {st.session[n]!r}"))
                    st.open[n] = False
                elif st.kind[n] == "stream":
                    f = st.stream[n]
                    if n in getattr(st, "caller_closed", ()):
                        disk = self.read(st, n)
                        if disk != st.log[n]:
                            P.append(("stream-content-after-teardown", f"after teardown: {n} (closed by its owner before) received {disk!r}, expected {st.log[n]!r}"))
                    elif f.closed:
                        P.append(("caller-stream-closed", f"teardown closed the caller-owned stream {n}"))
                    else:
                        f.flush()        # the harness owns the object: push what it has received to disk
                        disk = self.read(st, n)
                        if disk != st.log[n]:
                            P.append(("stream-content-after-teardown", f"after teardown: {n} received {disk!r}, expected {st.log[n]!r}"))
                else:
                    st.disconnects[n] += 1
            st.registry = []
            for n in self.names:
                if st.kind[n] == "recorder" and st.writers[n].disconnected != st.disconnects[n]:
                    P.append(("recorder-disconnects", f"after teardown: recorder {n} saw {st.writers[n].disconnected} disconnects, expected {st.disconnects[n]}"))
            # teardown disconnects every writer and forgets them: a further emit must reach nobody
            try:
                g.write("M999")
            except Exception as e:   # noqa: BLE001
                P.append(("write-after-teardown-raised", repr(e)))
            for n in self.names:
                if st.kind[n] == "recorder" and b"M999" in b"".join(st.writers[n].new):
                    P.append(("writer-still-registered-after-teardown", f"{n} still receives lines after teardown"))
                if st.kind[n] == "path":
                    disk = self.read(st, n)
                    if disk is not None and b"M999" in disk:
                        P.append(("writer-still-registered-after-teardown", f"{n} still receives lines after teardown"))
        return P

    def real_registry(self, st):
        """What the builder itself says is registered (public get_writer), as writer names."""
        names = {id(w): n for n, w in st.writers.items()}
        out, i = [], 0
        while True:
            try:
                out.append(names.get(id(st.g.get_writer(i)), "?"))
            except IndexError:
                return tuple(out)
            i += 1

    def canon(self, st):
        return (tuple(st.registry), self.real_registry(st), tuple((n, st.open[n], digest(st.log[n]), digest(st.session[n])) for n in self.names), st.emits, st.end, getattr(st, "numbering", None), getattr(st, "dead", False))

    def outcome(self, st):
        return (tuple(st.registry), st.emits, type(st.last_exc).__name__ if st.last_exc else None)


RULE = ("BFS over histories of add_writer/remove_writer (path-based FileWriters, FileWriter over an open UTF-8 text file and over an open binary file, custom recording writers), "
        "three emitting calls incl. a non-ASCII comment (at most N emits per history), flush, teardown(), teardown(False), leaving the builder's with-block (normally and through an exception) and a teardown after the caller closed its own streams (end of history) on the real GCodeBuilder, for both line endings, plus a configuration where the formatter is replaced (set_formatter) or its line ending re-configured between writes; reference model = ordered duplicate-free "
        "registry + per-writer byte log + per-path session log (a path-based writer truncates when it re-opens after a disconnect); recorders checked after every call, file contents "
        "after flush and teardown, teardown must disconnect and forget every writer and leave caller-owned streams open; distinct = distinct (registry, per-writer logs, sessions)")
ASSUMPTIONS = ["not demanded: that teardown pushes a caller-owned buffered file to disk (the harness flushes the object it owns before reading it back)",
               "nothing is demanded about writers removed before flush/teardown; one FileWriter per path"]


from gscrib.formatters import DefaultFormatter     # noqa: E402


class NumberingFormatter(DefaultFormatter):
    """A stateful user formatter: every statement gets the next line number (formatting a statement twice burns a number)."""

    def __init__(self):
        super().__init__()
        self.n = 0

    def line(self, statement):
        self.n += 1
        return f"N{self.n} " + super().line(statement)


def debug(system):
    system.debug_log = True
    return system


def systems(tier):
    if tier == "quick":
        return [("lf-4writers", C14System(["pathA", "text", "rec1", "rec2"], "\\n", 2), 5, None),
                ("crlf-3writers-debug-logging", debug(C14System(["rec1", "pathA", "binary"], "\\r\\n", 2)), 5, None),
                ("output-option", C14System(["cfgpath", "rec1", "codecs", "utf16"], "\\n", 2), 4, None),
                ("formatter-replaced", C14System(["rec1", "rec2", "pathA"], "\\n", 2, formatters=True), 4, None),
                ("output-option-stream-in-GConfig", C14System(["cfgmem", "rec1"], "\\n", 2), 4, None)]
    return [("lf-5writers", C14System(["pathA", "pathB", "text", "rec1", "rec2"], "\\n", 3), 6, None),
            ("crlf-4writers-debug-logging", debug(C14System(["rec1", "pathA", "binary", "text"], "\\r\\n", 3)), 7, None),
            ("output-option", C14System(["cfgpath", "rec1", "pathA", "codecs", "utf16"], "\\n", 3), 6, None),
            ("formatter-replaced", C14System(["rec1", "pathA", "text"], "\\n", 3, formatters=True), 5, None),
            ("output-option-stream-in-GConfig", C14System(["cfgmem", "rec1", "pathA"], "\\n", 3), 5, None)]


def run(tier, seed):
    return run_configs("model_checking", systems(tier), tier, seed, RULE, ASSUMPTIONS, snapshot_check=False)


def replay(body):
    label = body["replay"]["config"]
    for l, system, _, _ in systems("thorough") + systems("quick"):
        if l == label:
            out = replay_history(system, body)
            return out
    raise SystemExit(f"unknown config {label}")
