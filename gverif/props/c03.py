"""C03 - Configured bounds are never exceeded by an emitted command (E1)."""

import math

from ._base import BuilderSystem, run_configs, replay_history, replayed
from ..harness import pt
from ..common import rf, import_gscrib

import_gscrib()
from gscrib.excepts import ToolStateError, CoolantStateError   # noqa: E402  (an interlock may apply as well)
from gscrib.formatters import DefaultFormatter                  # noqa: E402
from gscrib.geometry.bounds import BoundManager                 # noqa: E402
from gscrib.geometry.point import Point                         # noqa: E402

NAN = "nan"


class SupplyHook:
    """Move hook that supplies an F or S word. `fresh=True` returns a new mapping instead of mutating its argument
    (both are legal: the builder documents that the hook's *return value* is what gets used)."""

    def __init__(self, key, fresh):
        self.key, self.fresh, self.value = key, fresh, None

    def __call__(self, origin, target, params, state):
        if self.value is None:
            return params
        if self.fresh:
            out = type(params)(params)
            out[self.key] = self.value
            return out
        params.update({self.key: self.value})
        return params
AXI = {"x": 0, "y": 1, "z": 2}
TEMP_CODES = {"M104": "hotend-temperature", "M109": "hotend-temperature", "M140": "bed-temperature",
              "M190": "bed-temperature", "M141": "chamber-temperature", "M191": "chamber-temperature"}


def val(v):
    return float(v) if isinstance(v, str) else v


def outside(v, lo, hi):
    v = val(v)
    return math.isnan(v) or v < lo or v > hi


def ladder(lo, hi):
    """min, max, mid, min-ulp, max+ulp, far below, far above, NaN, and 0 (the initial value of every tracked quantity)."""
    out = [lo, hi, (lo + hi) / 2, math.nextafter(lo, -math.inf), math.nextafter(hi, math.inf),
           lo - 1000.5, hi + 1000.5, NAN]
    if 0 not in out:
        out.append(0)
    return out


class PlainFormatter(DefaultFormatter):
    """A user formatter (set_formatter is public API) that prints whatever number it is given; the bounds must not rely on
    the bundled formatter refusing NaN."""

    def number(self, number):
        return format(float(number), ".6f")


class C03System(BuilderSystem):
    deep = True

    def __init__(self, label, bounds, families, translate=None, rebound=None, hooks=False, start=None, formatter=False):
        self.label = label
        self.formatter = formatter
        self.hooks = hooks
        self.start = start
        self.bounds0 = bounds            # dict name -> (lo, hi); axes -> ((x,y,z),(x,y,z))
        self.families = families
        self.translate = translate
        self.rebound = rebound           # (name, lo, hi) offered as a mid-history set_bounds op
        self.cfg = {}

    def setup(self, st):
        st.bounds = {}
        if self.formatter:
            st.g.set_formatter(PlainFormatter())
        for name, (lo, hi) in self.bounds0.items():
            st.g.set_bounds(name, lo, hi)
            st.bounds[name] = (lo, hi)
        st.offset = (0.0, 0.0, 0.0)
        if self.translate:
            st.g.transform.translate(*self.translate)
            st.offset = tuple(float(v) for v in self.translate)
        st.g.set_resolution(1.0)
        if self.start:
            # positioning prefix: a known start inside the box, relative mode (saves two levels of depth)
            st.g.set_axis(x=self.start[0], y=self.start[1], z=self.start[2])
            st.g.set_distance_mode("relative")
            for c in st.rec.take():
                st.machine.feed_words([w for w in __import__("gverif.oracles.lex", fromlist=["x"]).executable_words(c.decode().rstrip()) if w[0] != "?"])
        st.hooks = {}
        if self.hooks:
            for key in ("F", "S"):
                for fresh in (False, True):
                    h = SupplyHook(key, fresh)
                    st.hooks[(key, fresh)] = h
                    st.g.add_hook(h)

    # ---- alphabet ----------------------------------------------------
    def scalar_ladder(self, st, name):
        vals = ladder(*self.bounds0[name])
        if self.rebound and self.rebound[0] == name:
            for v in ladder(self.rebound[1], self.rebound[2]):
                if v not in vals:
                    vals.append(v)
        # values that are legal for a *sibling* quantity (a validator wired to the wrong property accepts them)
        for other, rng in self.bounds0.items():
            if other != name and other != "axes":
                mid = (rng[0] + rng[1]) / 2
                if mid not in vals:
                    vals.append(mid)
        return vals

    def ops(self, st):
        ops = []
        fam = self.families
        if "axes" in fam:
            lo, hi = st.bounds["axes"]
            mid = [(a + b) / 2 for a, b in zip(lo, hi)]
            kinds = ("move", "rapid", "move_absolute", "rapid_absolute", "probe")
            if self.translate:
                # bypass moves ignore the transform by contract: afterwards machine and builder coordinates
                # are no longer related by it, so the monitor could not map targets back soundly
                kinds = ("move", "rapid", "probe")
            for kind in kinds:
                pre = ["towards"] if kind == "probe" else []
                for ax in ("x", "z"):
                    i = AXI[ax]
                    for v in ladder(lo[i], hi[i]):
                        ops.append([kind, pre, {ax: v}])
                for v in ladder(lo[1], hi[1]):
                    ops.append([kind, pre, {"x": mid[0], "y": v, "z": mid[2]}])
                # the same requests as a positional sequence and as a Point object, upper-case keywords
                for v in (lo[2], hi[2], math.nextafter(hi[2], math.inf), hi[2] + 1000.5, NAN):
                    ops.append([kind, pre + [[None, None, v]], {}])
                    ops.append([kind, pre + [["P", mid[0], mid[1], v]], {}])
                    ops.append([kind, pre, {"Z": v, "X": mid[0]}])
            ops.append(["move", [], {"x": 1, "y": -3}])
            ops.append(["rapid", [], {"x": -1, "z": 0.5}])
            if not self.translate:   # G92 also breaks the machine = transform(builder) relation
                ops.append(["set_axis", [], {"x": mid[0], "y": mid[1], "z": mid[2]}])
                ops.append(["set_axis", [], {"x": hi[0]}])
            ops.append(["set_distance_mode", ["relative"]])
            ops.append(["set_distance_mode", ["absolute"]])
            ops.append(["auto_home", [], {}])
            p = st.g.position.resolve()
            rel = st.g.distance_mode.is_relative
            # shapes whose end points are inside (when started from mid) but whose interior leaves the box
            ops.append(["trace.arc", [[0, 0] if rel else [p.x, p.y], [0, 3]], {}])          # full circle radius 3
            ops.append(["trace.polyline", [[[1, 0], [0, 9], [0, -9]] if rel else [[p.x + 1, p.y], [p.x + 1, p.y + 9], [p.x + 1, p.y]]], {}])
            ops.append(["trace.arc_radius", [[1, 0] if rel else [p.x + 1, p.y], -4.0], {}])
        if "feed-rate" in fam:
            for v in self.scalar_ladder(st, "feed-rate"):
                ops += [["set_feed_rate", [v]], ["move", [], {"x": 1, "F": v}], ["rapid", [], {"y": 1, "f": v}],
                        ["probe", ["away"], {"z": 0, "F": v}], ["move_absolute", [], {"x": 2, "F": v}],
                        ["rapid_absolute", [], {"x": 2, "F": v}],
                        ["move", [], {"F": v}], ["rapid", [], {"F": v}]]          # a move that names no coordinate at all
        if "feed-rate" in fam:
            ops += [["set_feed_mode", ["1/time"]], ["set_feed_mode", ["units/min"]], ["set_length_units", ["in"]]]
        if "tool-power" in fam:
            for v in self.scalar_ladder(st, "tool-power"):
                ops += [["set_tool_power", [v]], ["tool_on", ["clockwise", v]], ["power_on", ["dynamic", v]],
                        ["move", [], {"x": 1, "S": v}], ["rapid", [], {"x": 2, "s": v}], ["probe", ["towards"], {"z": 0, "S": v}], ["move", [], {"S": v}],
                        ["move_absolute", [], {"y": 1, "S": v}]]
            ops += [["tool_off"], ["power_off"]]
        if "tool-number" in fam:
            lo, hi = st.bounds["tool-number"]
            for v in (lo, hi, lo + 1, lo - 1, hi + 1, 0, -1, hi + 1000):
                ops += [["tool_change", ["manual", v]], ["tool_change", ["automatic", v]]]
        for t in ("bed", "hotend", "chamber"):
            name = f"{t}-temperature"
            if name in fam:
                for v in self.scalar_ladder(st, name):
                    ops += [[f"set_{t}_temperature", [v]], ["halt", [f"wait-for-{t}"], {"S": v}],
                            ["halt", [f"wait-for-{t}"], {"R": v}], ["halt", [f"wait-for-{t}"], {"s": v}]]
        if any(f"{t}-temperature" in fam for t in ("bed", "hotend", "chamber")):
            # the limits are numbers in whatever temperature units are selected
            ops += [["set_temperature_units", ["kelvin"]], ["set_temperature_units", ["celsius"]]]
        if self.hooks:
            for key, name in (("F", "feed-rate"), ("S", "tool-power")):
                if name in fam:
                    for v in self.scalar_ladder(st, name):
                        for fresh in (False, True):
                            ops.append(["hook-move", [key, fresh, v]])
        if self.rebound and self.rebound[0] in st.bounds and st.bounds[self.rebound[0]] != (self.rebound[1], self.rebound[2]):
            ops.append(["set_bounds", list(self.rebound)])
        # set_bounds calls that have to be rejected (empty range at a value of the ladder that lies outside the limits in force,
        # reversed range): the limits accepted last stay in force (if an implementation accepts the call, the model follows it)
        for name, (lo, hi) in st.bounds.items():
            if name == "axes":
                far = tuple(h + 1000.5 for h in hi)
                ops.append(["set_bounds", [name, far, far]])
            else:
                ops.append(["set_bounds", [name, hi + 1000.5, hi + 1000.5]])
                ops.append(["set_bounds", [name, hi + 1000.5, lo - 1000.5]])
        return ops

    # ---- what the call asks for --------------------------------------
    def requested_outside(self, st, op, pre_known, pre_pos, pre_rel):
        """True when the call clearly asks for an out-of-range value (only unambiguous cases)."""
        name = op[0]
        kw = {k.upper(): v for k, v in (op[2] if len(op) > 2 else {}).items()}
        args = op[1] if len(op) > 1 else []
        pos = args[1] if (name == "probe" and len(args) > 1) else (args[0] if (name != "probe" and args) else None)
        if isinstance(pos, list):
            vals = pos[1:] if pos and pos[0] == "P" else pos
            for ax, v in zip(("X", "Y", "Z"), vals):
                if v is not None:
                    kw[ax] = v
        b = st.bounds
        why = []
        if name in ("move", "rapid", "probe", "move_absolute", "rapid_absolute"):
            if "axes" in b:
                lo, hi = b["axes"]
                bypass = name.endswith("_absolute")
                for ax, i in (("X", 0), ("Y", 1), ("Z", 2)):
                    if ax not in kw or kw[ax] is None:
                        continue
                    v = val(kw[ax])
                    if math.isnan(v):
                        why.append(f"{ax}=nan")
                    elif pre_rel and not bypass:
                        if pre_known[ax] and abs(v) > 100 and outside(pre_pos[ax] - st.offset[i] * 0 + v, lo[i], hi[i]):
                            why.append(f"{ax}: {pre_pos[ax]}+{v} outside [{lo[i]},{hi[i]}]")
                    elif outside(v, lo[i], hi[i]):
                        why.append(f"{ax}={v} outside [{lo[i]},{hi[i]}]")
            if "F" in kw and "feed-rate" in b and outside(kw["F"], *b["feed-rate"]):
                why.append(f"F={kw['F']} outside {b['feed-rate']}")
            if "S" in kw and "tool-power" in b and outside(kw["S"], *b["tool-power"]):
                why.append(f"S={kw['S']} outside {b['tool-power']}")
        elif name == "hook-move":
            key, _, v = op[1]
            bn = "feed-rate" if key == "F" else "tool-power"
            if bn in b and outside(v, *b[bn]):
                why.append(f"hook supplies {key}={v} outside {b[bn]}")
        elif name == "set_feed_rate" and "feed-rate" in b and outside(op[1][0], *b["feed-rate"]):
            why.append("feed rate")
        elif name == "set_tool_power" and "tool-power" in b and outside(op[1][0], *b["tool-power"]):
            why.append("tool power")
        elif name in ("tool_on", "power_on") and "tool-power" in b and outside(op[1][1], *b["tool-power"]):
            why.append("tool power")
        elif name == "tool_change" and "tool-number" in b and outside(op[1][1], *b["tool-number"]):
            why.append("tool number")
        elif name.startswith("set_") and name.endswith("_temperature"):
            t = name[4:-12] + "-temperature"
            if t in b and outside(op[1][0], *b[t]):
                why.append(t)
        elif name == "halt":
            t = op[1][0].replace("wait-for-", "") + "-temperature"
            v = kw.get("S", kw.get("R"))
            if t in b and v is not None and outside(v, *b[t]):
                why.append(t)
        return why

    # ---- transition + oracle ----------------------------------------
    def step(self, st, op):
        problems = []
        m = st.machine
        pre_known, pre_pos, pre_rel = dict(m.known), dict(m.pos), m.relative
        why = self.requested_outside(st, op, pre_known, pre_pos, pre_rel)
        if op[0] == "hook-move":
            key, fresh, v = op[1]
            h = st.hooks[(key, fresh)]
            h.value = float(v) if isinstance(v, str) else v
            exc, chunks = self.apply(st, ["move", [], {"y": 1}])
            h.value = None
        else:
            exc, chunks = self.apply(st, op)
        self.feed(st, chunks, problems)
        if op[0] == "set_bounds" and exc is None:
            st.bounds = dict(st.bounds)
            st.bounds[op[1][0]] = (op[1][1], op[1][2])
        if why:
            if exc is None:
                problems.append((f"out-of-range-accepted-{op[0]}", f"{op} accepted although {why}; emitted {st.last_lines}"))
            elif not isinstance(exc, (ValueError, ToolStateError, CoolantStateError)):
                problems.append((f"wrong-exception-{op[0]}", f"{op} ({why}) raised {exc!r} instead of ValueError"))
        # stream monitor
        b = st.bounds
        for line, info in zip(st.last_lines, st.last_infos):
            codes, others = info["codes"], info["others"]
            if info["kind"] in ("G0", "G1", "probe") and "axes" in b:
                lo, hi = b["axes"]
                tgt = info["target"]
                for ax, i in (("X", 0), ("Y", 1), ("Z", 2)):
                    if ax in tgt and tgt[ax] is not None:
                        v = tgt[ax] - st.offset[i]
                        tol = (m.rel_steps[ax] + 1) * 0.5e-5 + 1e-9
                        if v < lo[i] - tol or v > hi[i] + tol:
                            problems.append((f"emitted-target-outside-box-{info['kind']}", f"line {line!r}: {ax} target {v} outside [{lo[i]},{hi[i]}] (op {op})"))
            if "F" in others and "feed-rate" in b and outside(others["F"], *b["feed-rate"]):
                problems.append(("emitted-F-out-of-range", f"line {line!r} with feed bounds {b['feed-rate']} (op {op})"))
            tool_ctx = info["kind"] in ("G0", "G1", "probe", "words") or any(c in ("M3", "M4") for c in codes)
            if "S" in others and tool_ctx and "tool-power" in b and outside(others["S"], *b["tool-power"]):
                problems.append(("emitted-S-out-of-range", f"line {line!r} with tool-power bounds {b['tool-power']} (op {op})"))
            for c in codes:
                name = TEMP_CODES.get(c)
                if name and name in b:
                    for k in ("S", "R"):
                        if k in others and outside(others[k], *b[name]):
                            problems.append(("emitted-temperature-out-of-range", f"line {line!r} with {name} bounds {b[name]} (op {op})"))
            if "T" in others and "tool-number" in b and outside(others["T"], *b["tool-number"]):
                problems.append(("emitted-T-out-of-range", f"line {line!r} with tool-number bounds {b['tool-number']} (op {op})"))
        return problems

    def canon(self, st):
        g, m = st.g, st.machine
        s = g.state
        return (pt(g.position), str(g.distance_mode), tuple((rf(m.pos[a]) if m.known[a] else None) for a in ("X", "Y", "Z")),
                m.relative, tuple(sorted((k, repr(v)) for k, v in st.bounds.items())), s.is_tool_active, s.tool_number,
                rf(s.feed_rate), rf(s.tool_power), rf(s.target_bed_temperature), rf(s.target_hotend_temperature),
                rf(s.target_chamber_temperature), str(s.temperature_units),
                tuple(repr(s.get_bounds(n)) for n in sorted(st.bounds)))      # the limits the builder itself holds

    def outcome(self, st):
        return (tuple(st.last_lines), type(st.last_exc).__name__ if st.last_exc else None)


BOX = ((0, 0, -1), (4, 4, 1))
R = (10, 100)
# every bounded quantity gets its own range, disjoint from the others where possible, so that a validator
# consulting the wrong property's bounds accepts an out-of-range value (or rejects everything)
ALL = {"axes": BOX, "feed-rate": (10, 100), "tool-power": (200, 300), "tool-number": (2, 5), "bed-temperature": (40, 60),
       "hotend-temperature": (150, 250), "chamber-temperature": (20, 30)}


def systems(tier):
    q = [
        ("axes", C03System("axes", {"axes": BOX}, ["axes"], rebound=("axes", (1, 1, -1), (3, 3, 0.5))), 3),
        ("axes-relative-from-known-start", C03System("axes-relative-from-known-start", {"axes": BOX}, ["axes"], start=(2, 2, 0)), 2),
        ("feed", C03System("feed", {"feed-rate": R}, ["feed-rate"], rebound=("feed-rate", 20, 50)), 3),
        ("power", C03System("power", {"tool-power": R}, ["tool-power"], rebound=("tool-power", 0, 50)), 3),
        ("feed+power", replayed(C03System("feed+power", {"feed-rate": (10, 100), "tool-power": (200, 300)}, ["feed-rate", "tool-power"])), 2),
        ("feed+power-hooks", C03System("feed+power-hooks", {"feed-rate": (10, 100), "tool-power": (200, 300)}, ["feed-rate", "tool-power"], hooks=True), 2),
        ("temps+tool", C03System("temps+tool", {k: ALL[k] for k in ("tool-number", "bed-temperature", "hotend-temperature", "chamber-temperature")},
                                 ["tool-number", "bed", "bed-temperature", "hotend-temperature", "chamber-temperature"]), 2),
        ("all-seven-user-formatter", C03System("all-seven-user-formatter", ALL, [k for k in ALL if k != "axes"], formatter=True), 1 if tier == "quick" else 2),
    ]
    if tier == "quick":
        return [(l, s, d, None) for l, s, d in q]
    t = [
        ("axes", q[0][1], 4),
        ("feed", C03System("feed", {"feed-rate": R}, ["feed-rate"], rebound=("feed-rate", 20, 50)), 3),
        ("power", C03System("power", {"tool-power": R}, ["tool-power"], rebound=("tool-power", 0, 50)), 3),
        ("temps+tool", q[3][1], 3),
        ("axes+feed", C03System("axes+feed", {"axes": BOX, "feed-rate": R}, ["axes", "feed-rate"]), 2),
        ("axes-relative-from-known-start", C03System("axes-relative-from-known-start", {"axes": BOX}, ["axes"], start=(2, 2, 0)), 3),
        ("feed+power-hooks", C03System("feed+power-hooks", {"feed-rate": (10, 100), "tool-power": (200, 300)}, ["feed-rate", "tool-power"], hooks=True), 3),
        ("all-seven", C03System("all-seven", ALL, list(ALL)), 2),
        ("axes-translated", C03System("axes-translated", {"axes": BOX}, ["axes"], translate=(10, 0, 0)), 3),
        q[-1],
    ]
    return [(l, s, d, None) for l, s, d in t]


RULE = ("BFS over call histories on the real GCodeBuilder per bounds configuration; value ladders {min, max, mid, min-ulp, max+ulp, far "
        "below, far above, NaN} on every carrier of a bounded quantity (moves/rapids/bypass moves/probes per axis in both distance modes, "
        "F/S words, scalar setters, tool_on/power_on, tool_change, temperatures incl. halt S/R/s), tracer shapes whose interior leaves the "
        "box, set_bounds as a mid-history op; oracle = stream monitor over every emitted line (targets reconstructed by the independent "
        "interpreter, every F/S/T/temperature word) + 'clearly out-of-range request => ValueError'")
ASSUMPTIONS = ["builder coordinates = machine coordinates (no transform), except the 'axes-translated' configuration (pure translation)",
               "relative-mode requests are classified as out of range only when the machine origin is determined and the offset is far outside",
               "G92/G28 words are not motion targets; fan S words ignored"]


SCALARS = ("feed-rate", "tool-power", "tool-number", "bed-temperature", "hotend-temperature", "chamber-temperature")
RANGES = [(10, 100), (0, 1), (-5, -1), (0.5, 0.75), (200, 300)]


def grid_case(name, lo, hi, v):
    """One BoundManager.validate() call on a fresh manager; returns a problem or None."""
    bm = BoundManager()
    if name == "axes":
        bm.set_bounds("axes", Point(*lo), Point(*hi))
        comps = [None if c is None else val(c) for c in v]
        want_reject = any(c is not None and outside(c, lo[i], hi[i]) for i, c in enumerate(comps))
        arg = Point(*comps)
    else:
        isint = name == "tool-number"
        bm.set_bounds(name, lo, hi)
        arg = val(v)
        if isint and (isinstance(arg, float) and not arg.is_integer()):
            return None
        want_reject = outside(arg, lo, hi)
    try:
        bm.validate(name, arg)
        exc = None
    except Exception as e:        # noqa: BLE001
        exc = e
    if want_reject and exc is None:
        return ("bound-manager-accepts-out-of-range", f"BoundManager with {name} in [{lo}, {hi}]: validate({name!r}, {arg!r}) returned normally")
    if want_reject and not isinstance(exc, ValueError):
        return ("bound-manager-wrong-exception", f"BoundManager with {name} in [{lo}, {hi}]: validate({name!r}, {arg!r}) raised {exc!r}")
    if not want_reject and exc is not None:
        return ("bound-manager-rejects-in-range", f"BoundManager with {name} in [{lo}, {hi}]: validate({name!r}, {arg!r}) raised {exc!r}")
    return None


def grid_cases():
    for name in SCALARS:
        for lo, hi in RANGES:
            if name == "tool-number" and (lo != int(lo) or hi != int(hi)):
                continue
            for v in ladder(lo, hi) + ["inf", "-inf"]:
                yield name, lo, hi, v
    lo, hi = BOX
    per_axis = [[None] + ladder(lo[i], hi[i]) + ["inf"] for i in range(3)]
    import itertools
    for v in itertools.product(*per_axis):
        yield "axes", list(lo), list(hi), list(v)


def run(tier, seed):
    res = run_configs("model_checking", systems(tier), tier, seed, RULE, ASSUMPTIONS)
    n = 0
    for name, lo, hi, v in grid_cases():
        n += 1
        p = grid_case(name, lo, hi, v)
        if p:
            from ..common import Violation
            res.add(Violation(p[0], p[1], {"kind": "grid", "case": [name, lo, hi, v]}))
    res.coverage["bound_manager_grid"] = n
    res.coverage["rule"] += ("; plus a complete grid on BoundManager.validate itself: six scalar properties x 5 ranges x the value ladder with +-inf, and the axes box x "
                             "every combination of per-axis {unknown, ladder, inf} coordinates")
    return res


def replay(body):
    if body["replay"].get("kind") == "grid":
        p = grid_case(*body["replay"]["case"])
        return {"violations": [list(p)] if p else []}
    label = body["replay"]["config"]
    for l, system, _, _ in systems("thorough") + systems("quick"):
        if l == label:
            return replay_history(system, body)
    raise SystemExit(f"unknown config {label}")
