"""Helpers shared by the E1 property modules."""

from ..common import Result, Violation, jsonable, debug_logging
from ..engine_opseq import bfs, check_snapshots, _replay
from ..harness import Sut, decode_lines
from ..oracles import lex
from ..oracles.machine import Machine


class BuilderSystem:
    """Base: a real builder + Machine interpreter fed with every emitted line."""

    cfg = {}
    cls = None
    style = ";"
    ending = "\n"
    name = "builder"
    deep = False         # True: search key = canon() refined by harness.deep_state(real builder); see engine_opseq._key

    def fresh(self):
        st = Sut(dict(self.cfg), self.cls)
        st.machine = Machine(getattr(self, "labels", None))
        st.last_rejected = False
        st.last_exc = None
        st.last_lines = []
        st.last_infos = []
        st.ctxinfo = []
        self.setup(st)
        if getattr(self, "bystander", False):
            self.make_bystander(st)
        if getattr(self, "replay_only", False):
            # every state of this search is rebuilt by replaying its history on fresh objects instead of deep-copying a
            # snapshot: a copy gets new object identities, which silently empties caches keyed on the object (lru_cache on
            # a method, WeakKeyDictionary, id()-keyed tables)
            st.__class__ = type("ReplayOnlySut", (st.__class__,), {"copyable": property(lambda self: False)})
        st.rec.take()
        return st

    def setup(self, st):
        pass

    def make_bystander(self, st):
        """A second, differently configured builder that lives next to the one under test and is used between its calls:
        nothing of it may leak into the first one (state shared through class attributes, default arguments, module globals)."""
        other = Sut({"decimal_places": 1, "comment_symbols": "(", "line_endings": "\r\n", "x_axis": "A"}, self.cls)
        g = other.g
        g.transform.translate(7.0, -7.0, 7.0)
        g.transform.save_state("n")
        if hasattr(g, "set_bounds"):
            g.set_bounds("feed-rate", 1, 99)
            g.set_bounds("tool-power", 1, 9)
            g.set_bounds("axes", (-50, -50, -50), (50, 50, 50))
            g.add_hook(bystander_hook)
            g.set_resolution(0.5)
        g.set_distance_mode("relative")
        st.other = other

    def feed(self, st, chunks, problems):
        """Decode emitted chunks, feed them to the interpreter."""
        st.last_lines = []
        st.last_infos = []
        st.last_events = []
        for c in chunks:
            s = c.decode("utf-8")
            if not s.endswith(self.ending) or self.ending in s[: -len(self.ending)]:
                problems.append(("unterminated-line", f"writer chunk is not exactly one line: {s!r}"))
            block = s[: -len(self.ending)] if s.endswith(self.ending) else s
            # a controller ends a block at CR LF, LF or CR: whatever follows a stray line break inside the chunk is executed
            for piece in lex.LINE_BREAK_RE.split(block):
                words = lex.executable_words(piece, getattr(st, "style", None) or self.style)
                bad = [w for w in words if w[0] == "?"]
                if bad:
                    problems.append(("unparseable-word", f"line {piece!r} has unparseable token(s) {bad}"))
                    words = [w for w in words if w[0] != "?"]
                st.last_lines.append(piece)
                st.last_infos.append(st.machine.feed_words(words))
                st.last_events += st.machine.events

    def apply(self, st, op):
        """Real call with context bookkeeping. Returns (exc, chunks)."""
        if op[0] == "!fault":
            # the same call while a second output (registered behind the recorder) fails on the first line it is handed:
            # what reached the recorder is what the machine got, and the reported state has to agree with that
            if getattr(st, "fault", None) is None:
                from ..harness import FaultyWriter
                st.fault = FaultyWriter()
                st.g.add_writer(st.fault)
            st.fault.armed = True
            try:
                return self.apply(st, op[1])
            finally:
                st.fault.armed = False
        if op[0] == "enter":
            st.ctxinfo.append((op[1][0], str(getattr(st.g, "distance_mode", None))))
        if getattr(self, "debug_log", False):
            with debug_logging():                   # the application runs the library with DEBUG logging switched on
                exc, chunks = st.call(op)
        else:
            exc, chunks = st.call(op)
        if getattr(st, "other", None) is not None:
            try:
                st.other.g.move(x=1.25, y=-0.5, F=77)
                st.other.g.comment("bystander")
            except Exception:       # noqa: BLE001 - what the bystander does is its own business
                pass
            st.other.rec.take()
        if op[0] in ("exit", "exit!", "exit!k"):
            if st.ctxinfo:
                st.ctxinfo.pop()
        if op[0] == "enter" and exc is not None and len(st.ctxinfo) > len(st.ctx):
            st.ctxinfo.pop()
        st.last_exc = exc
        st.last_rejected = exc is not None
        return exc, chunks


def bystander_hook(origin, target, params, state):
    params["Q"] = 9
    return params


def with_bystander(system):
    system.bystander = True
    return system


def replayed(system):
    """Every state rebuilt by replay from scratch (no deep-copied snapshots): see BuilderSystem.fresh()."""
    system.replay_only = True
    return system


def with_debug_logging(system):
    """The same system, every call made with the library's loggers at DEBUG."""
    system.debug_log = True
    return system


def run_configs(level, configs, tier, seed, rule, assumptions, snapshot_check=True):
    """configs: list of (label, system, depth, max_states). Builds a Result."""
    res = Result(level)
    total = {"states": 0, "transitions": 0, "rejected_calls": 0, "distinct_outcomes": 0}
    per = []
    samples = []
    exhaustive = True
    caps = []
    for label, system, depth, max_states in configs:
        if snapshot_check:
            errs = check_snapshots(system, depth=2, limit=150)
            for e in errs[:5]:
                res.harness_errors.append(f"[{label}] {e}")
        stats, viols = bfs(system, depth, seed=seed, max_states=max_states, label=label)
        for v in viols:
            v.replay["config"] = label
            res.add(v)
        for k in total:
            total[k] += stats.get(k, 0)
        per.append({"config": label, "depth_bound": depth, **{k: stats[k] for k in
                    ("states", "transitions", "rejected_calls", "max_depth", "frontier_exhausted",
                     "distinct_outcomes", "open_frontier", "per_level")}})
        if not stats["frontier_exhausted"]:
            exhaustive = False
        caps += [f"[{label}] {c}" for c in stats["caps_hit"]]
        for s in stats["samples"][:2]:
            samples.append({"config": label, "history": s})
    res.coverage = {
        "states": total["states"],
        "transitions": total["transitions"],
        "traces_validated_against_impl": total["transitions"],
        "evaluations": total["transitions"],
        "distinct_nontrivial": total["states"],
        "rule": rule,
        "rejected_calls": total["rejected_calls"],
        "accepted_calls": total["transitions"] - total["rejected_calls"],
        "distinct_outcomes": total["distinct_outcomes"],
        "exhaustive": exhaustive,
        "exhaustive_note": ("frontier empty: the reachable state space under the alphabet was closed"
                            if exhaustive else
                            "all histories up to the depth bound of each configuration were enumerated "
                            "(modulo merging of identical canonical states); deeper histories are not covered"),
        "caps_hit": caps,
        "configs": per,
        "samples": samples or [{"note": "no successor states"}],
    }
    res.assumptions = assumptions
    return res


def replay_history(system, body):
    """Plain sequential replay of a recorded history, no explorer."""
    hist = body["replay"]["history"]
    st = system.fresh()
    trace = []
    found = []
    for op in hist:
        problems = system.step(st, op)
        trace.append({"op": op, "emitted": list(st.last_lines),
                      "exception": repr(st.last_exc) if st.last_exc else None,
                      "problems": problems})
        found += problems
    if hasattr(system, "dispose"):
        system.dispose(st)
    return {"trace": trace, "violations": [p for p in found]}
