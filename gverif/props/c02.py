"""C02 - Interlocks: no unsafe tool/coolant/halt sequence is ever emitted (E1, to closure)."""

from ._base import BuilderSystem, run_configs, replay_history, with_debug_logging
from ..common import rf, import_gscrib

import_gscrib()
from gscrib.excepts import ToolStateError, CoolantStateError, DeviceError   # noqa: E402
from ..harness import FaultyWriter    # noqa: E402

HALT_CODE = {
    "pause": "M0", "optional-pause": "M1", "end-without-reset": "M2", "end-with-reset": "M30",
    "pallet-exchange": "M60", "wait-for-bed": "M190", "wait-for-hotend": "M109",
    "wait-for-chamber": "M191", "wait-for-motion": "M400",
}
SPIN_CODE = {"clockwise": "M3", "cw": "M3", "counter": "M4", "ccw": "M4"}
POWER_CODE = {"constant": "M3", "dynamic": "M4"}
COOLANT_CODE = {"mist": "M7", "flood": "M8"}
TOOL = "tool"; COOL = "coolant"; ARG = "arg"
EXC = {TOOL: ToolStateError, COOL: CoolantStateError, ARG: ValueError}


def expect(op, tool_on, coolant_on):
    """Reference automaton. Returns (R, lines) where R is the set of applicable
    rejection kinds and lines the expected G/M codes per emitted line when R is empty
    (None = do not care about this op's output, e.g. moves)."""
    name, args, kw = op[0], (op[1] if len(op) > 1 else []), (op[2] if len(op) > 2 else {})
    R = set()
    busy = set()
    if tool_on:
        busy.add(TOOL)
    if coolant_on:
        busy.add(COOL)
    if name == "tool_on":
        if args[0] not in SPIN_CODE or isinstance(args[1], str) or args[1] < 0:       # 'inf' / 'nan' strings stand for non-finite powers
            R.add(ARG)
        if tool_on:
            R.add(TOOL)
        return R, [[SPIN_CODE.get(args[0])]]
    if name == "power_on":
        if args[0] not in POWER_CODE or isinstance(args[1], str) or args[1] < 0:
            R.add(ARG)
        if tool_on:
            R.add(TOOL)
        return R, [[POWER_CODE.get(args[0])]]
    if name in ("tool_off", "power_off"):
        return R, [["M5"]]
    if name == "coolant_on":
        if args[0] not in COOLANT_CODE:
            R.add(ARG)
        if coolant_on:
            R.add(COOL)
        return R, [[COOLANT_CODE.get(args[0])]]
    if name == "coolant_off":
        return R, [["M9"]]
    if name == "tool_change":
        if args[0] not in ("manual", "automatic") or args[1] < 1:
            R.add(ARG)
        return R | busy, [["M6"]]
    if name == "halt":
        if args[0] not in HALT_CODE:
            R.add(ARG)
        return R | busy, [[HALT_CODE.get(args[0])]]
    if name == "pause":
        return R | busy, [["M1" if (args and args[0]) else "M0"]]
    if name == "stop":
        return R | busy, [["M30" if (args and args[0]) else "M2"]]
    if name == "wait":
        return R | busy, [["M400"]]
    if name == "emergency_halt":
        return R, [["M5"], ["M9"], [], ["M30" if (len(args) > 1 and args[1]) else "M0"]]
    return R, None


class C02System(BuilderSystem):
    def __init__(self, halts, bounds=False, full_canon=True):
        self.halts = halts
        self.cfg = {}
        self.bounds = bounds
        self.full_canon = full_canon

    def setup(self, st):
        st.fault = FaultyWriter()
        st.g.add_writer(st.fault)        # registered behind the recorder: a line reaches the recorder before this output can fail
        if self.bounds:
            st.g.set_bounds("tool-power", 0, 1000)
            st.g.set_bounds("tool-number", 1, 12)
            st.g.set_bounds("feed-rate", 0, 5000)
            st.g.set_bounds("bed-temperature", 0, 100)
            st.g.set_bounds("hotend-temperature", 0, 300)
            st.g.set_bounds("chamber-temperature", 0, 80)
            st.g.set_bounds("axes", (-1000, -1000, -1000), (1000, 1000, 1000))

    def ops(self, st):
        ops = [
            ["tool_on", ["clockwise", 1000]], ["tool_on", ["ccw", 0]],
            ["tool_off"],
            ["power_on", ["constant", 50]], ["power_on", ["dynamic", 0]],
            ["power_off"],
            ["coolant_on", ["mist"]], ["coolant_on", ["flood"]], ["coolant_off"],
            ["tool_change", ["manual", 1]], ["tool_change", ["automatic", 12]],
            ["pause"], ["pause", [True]], ["stop"], ["stop", [True]], ["wait"],
            ["emergency_halt", ["stop now"]], ["emergency_halt", ["stop now", True]],
            ["move", [], {"x": 1}], ["rapid", [], {"x": 0, "S": 1000}],
            ["set_distance_mode", ["relative"]], ["set_bed_temperature", [50]],
            ["set_feed_rate", [100]], ["set_tool_power", [50]], ["sleep", [1]], ["query", ["position"]],
            # unit / table selectors: every variant of a non-halting command must stay non-halting
            ["set_temperature_units", ["kelvin"]], ["set_temperature_units", ["celsius"]],
            ["set_hotend_temperature", [200]], ["set_chamber_temperature", [40]], ["set_time_units", ["ms"]],
            ["set_fan_speed", [128]], ["query", ["temperature"]], ["set_length_units", ["in"]], ["set_plane", ["yz"]],
            # zero is a legal power and feed: the tool keeps running at S0 (laser travel moves)
            ["set_tool_power", [0]], ["move", [], {"y": 1, "S": 0}], ["set_feed_rate", [0]],
            # argument-invalid variants
            ["tool_on", ["off", 100]], ["tool_on", ["bogus", 1]], ["tool_on", ["clockwise", -1]],
            ["power_on", ["off", 10]], ["power_on", ["constant", -1]],
            ["tool_on", ["clockwise", "inf"]], ["power_on", ["constant", "inf"]], ["tool_on", ["ccw", "nan"]], ["power_on", ["dynamic", "-inf"]],
            ["coolant_on", ["off"]], ["tool_change", ["manual", 0]], ["tool_change", ["off", 1]],
            ["halt", ["off"]],
        ]
        for h in self.halts:
            ops.append(["halt", [h]])
        # a second output that fails while one of these calls writes
        for o in (["coolant_on", ["flood"]], ["tool_on", ["clockwise", 1000]], ["power_on", ["constant", 50]], ["tool_off"], ["coolant_off"],
                  ["tool_change", ["manual", 1]], ["pause"], ["emergency_halt", ["stop now"]]):
            ops.append(["!fault", o])
        for h, kw in (("wait-for-bed", {"S": 60}), ("wait-for-hotend", {"R": 200}), ("wait-for-chamber", {"s": 40})):
            if h in self.halts:
                ops.append(["halt", [h], kw])
        return ops

    def step(self, st, op):
        problems = []
        m = st.machine
        tool_before, cool_before = m.tool_on, m.coolant is not None
        faulted = op[0] == "!fault"
        if faulted:
            # the same call while the second output fails on its first line: whatever reached the first output counts
            op = op[1]
            st.fault.armed = True
        R, lines = expect(op, tool_before, cool_before)
        exc, chunks = self.apply(st, op)
        fired = faulted and not st.fault.armed
        st.fault.armed = False
        if fired:
            self.feed(st, chunks, problems)
            for ev in st.last_events:
                if ev[0] == "tool_start" and ev[2]:
                    problems.append(("emitted-tool-start-while-tool-on", f"{ev[1]} emitted while a tool is running (op {op}, second output failing)"))
                if ev[0] == "coolant_start" and ev[3] is not None:
                    problems.append(("emitted-coolant-start-while-coolant-on", f"{ev[1]} emitted while coolant {ev[3]} is on (op {op}, second output failing)"))
                if ev[0] in ("tool_change", "halt") and (ev[2] or ev[3] is not None):
                    problems.append((f"emitted-{ev[0]}-while-active", f"{ev[1]} emitted with tool_on={ev[2]} coolant={ev[3]} (op {op}, second output failing)"))
            if not isinstance(exc, DeviceError):
                problems.append(("output-failure-not-reported", f"{op}: the second output raised DeviceError, the call ended with {exc!r}"))
            codes = [info["codes"] for info in st.last_infos]
            if lines is not None and not R and codes != lines[:1]:
                problems.append(("wrong-codes", f"{op} (second output failing on the first line): the first output received codes {codes}, expected {lines[:1]}"))
            if st.g.state.is_tool_active != m.tool_on:
                problems.append(("tool-flag-mismatch", f"is_tool_active={st.g.state.is_tool_active}, the first output says {m.tool_on} after {op} (second output failed)"))
            if st.g.state.is_coolant_active != (m.coolant is not None):
                problems.append(("coolant-flag-mismatch", f"is_coolant_active={st.g.state.is_coolant_active}, the first output says {m.coolant} after {op} (second output failed)"))
            return problems
        self.feed(st, chunks, problems)
        # (a) stream monitor - the property verbatim
        for ev in st.last_events:
            kind = ev[0]
            if kind == "tool_start" and ev[2]:
                problems.append(("emitted-tool-start-while-tool-on", f"{ev[1]} emitted while a tool is running (op {op})"))
            if kind == "coolant_start" and ev[3] is not None:
                problems.append(("emitted-coolant-start-while-coolant-on", f"{ev[1]} emitted while coolant {ev[3]} is on (op {op})"))
            if kind in ("tool_change", "halt") and (ev[2] or ev[3] is not None):
                problems.append((f"emitted-{kind}-while-active", f"{ev[1]} emitted with tool_on={ev[2]} coolant={ev[3]} (op {op})"))
        # (b) lock-step automaton
        codes = [info["codes"] for info in st.last_infos]
        if R:
            if exc is None:
                problems.append(("not-rejected", f"{op} accepted although {sorted(R)} applies; emitted {st.last_lines}"))
            else:
                if not any(isinstance(exc, EXC[r]) for r in R):
                    problems.append(("wrong-exception-type", f"{op}: raised {exc!r}, expected one of {sorted(R)}"))
                if chunks:
                    problems.append(("rejected-but-emitted", f"{op}: raised {exc!r} but emitted {st.last_lines}"))
        else:
            if exc is not None:
                problems.append(("spurious-rejection", f"{op} raised {exc!r} with tool_on={tool_before} coolant_on={cool_before}: no documented condition applies"))
            elif lines is not None and codes != lines:
                problems.append(("wrong-codes", f"{op}: emitted codes {codes}, expected {lines}"))
        # (c) reported flags follow the emitted program
        if st.g.state.is_tool_active != m.tool_on:
            problems.append(("tool-flag-mismatch", f"is_tool_active={st.g.state.is_tool_active}, program says {m.tool_on} after {op}"))
        if st.g.state.is_coolant_active != (m.coolant is not None):
            problems.append(("coolant-flag-mismatch", f"is_coolant_active={st.g.state.is_coolant_active}, program says {m.coolant} after {op}"))
        return problems

    def canon(self, st):
        s, m = st.g.state, st.machine
        return (s.is_tool_active, s.is_coolant_active, str(s.spin_mode), str(s.power_mode), str(s.coolant_mode),
                s.tool_number, str(s.tool_swap_mode), rf(s.tool_power), str(s.halt_mode), str(s.distance_mode),
                str(st.g.distance_mode), m.tool_on, m.coolant, m.tool_code, m.relative,
                str(s.temperature_units)) + ((rf(s.feed_rate), rf(s.target_bed_temperature), str(s.time_units)) if self.full_canon else ())

    def outcome(self, st):
        return (tuple(tuple(i["codes"]) for i in st.last_infos), type(st.last_exc).__name__ if st.last_exc else None)


ALL_HALTS = list(HALT_CODE)
QUICK_HALTS = list(HALT_CODE)      # every table entry: a mode missing from a lookup table behaves like "off"

RULE = ("BFS to closure over the interlock alphabet (tool_on/off, power_on/off, coolant_on/off, tool_change, halt x modes, "
        "pause/stop/wait, emergency_halt, interleaved moves/mode/temperature/feed commands and argument-invalid variants) on the real "
        "GCodeBuilder; every transition is checked by (a) a stream monitor over the emitted lines, (b) a tool/coolant reference "
        "automaton deciding exactly which calls must be rejected and with which exception type, (c) equality of the reported "
        "activity flags with the program; distinct = distinct canonical (GState modal fields + interpreter modal state); "
        "position is dropped from the canonical form (no interlock decision reads it)")
ASSUMPTIONS = [
    "tool power values from {0, 50, 1000}; tool numbers {1, 12}; no bounds configured (C03/C06 cover bounds)",
    "canonical state drops the position only (relative moves would make the space infinite; no interlock decision reads it)",
]


def systems(tier):
    if tier == "quick":
        # quick merges states that differ only in feed rate / bed temperature / time units (thorough keeps them apart)
        return [("interlocks-quick", C02System(ALL_HALTS, full_canon=False), 40, None)]
    return [("interlocks-thorough", C02System(ALL_HALTS), 60, None),
            ("interlocks-wide-bounds-debug-logging-thorough", with_debug_logging(C02System(ALL_HALTS, bounds=True)), 60, None)]


def run(tier, seed):
    return run_configs("model_checking", systems(tier), tier, seed, RULE, ASSUMPTIONS)


def replay(body):
    label = body["replay"]["config"]
    for l, system, _, _ in systems("quick") + systems("thorough"):
        if l == label:
            return replay_history(system, body)
    raise SystemExit(f"unknown config {label}")
