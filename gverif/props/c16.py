"""C16 - Direct-write statements are delivered synchronously and errors surface (E2)."""

import itertools

from ..common import Result, Violation, pmap, digest, debug_logging, import_gscrib
from .. import engine_sched as ES
from ..printrun_harness import Execution, PC, PW, install_line_points

import_gscrib()
from gscrib.excepts import DeviceError   # noqa: E402

STATEMENTS = ["G1 X1", "M114", "G1 X2", "M105"]
BEHAVIOURS = ["ok", "status+ok", "report+ok", "report-in-ok", "error", "alarm", "bang", "Error+ok", "loss", "ok+async-alarm"]
ERRORS = ("error", "alarm", "bang", "Error+ok")


class DirectFirmware:
    """Plain firmware for direct writes. Every produced reply line carries a tag so that the oracle knows which
    statement it acknowledges: ('greeting',) ('hs', text) for library-issued handshake lines, ('info', k),
    ('report', k, value), ('ack', k) / ('err', k) for the terminal reply of user statement k, ('extra-ok', k)."""

    def __init__(self, behaviours, greeting=None):
        self.behaviours = list(behaviours)
        self.greeting = greeting
        self.produced = []        # (line, tag) in production order == delivery order
        self.user = []            # user statements received
        self.wire = []
        self.lose_now = False

    def connect_replies(self):
        if self.greeting:
            self.produced.append((self.greeting, ("greeting",)))
            return [self.greeting]
        return []

    def _out(self, items):
        self.produced += items
        return [l for l, _ in items]

    def receive(self, line):
        self.wire.append(line)
        if line.startswith(("N", "M110")) and "M110" in line and getattr(self, "hs_error", False) and not getattr(self, "hs_error_sent", False):
            # a controller that is already up behind a bridge refuses the line-number reset of the handshake
            self.hs_error_sent = True
            return self._out([("error:20", ("hs-err", line))])
        if line == "G4 P0" and getattr(self, "hs_report", False):
            # a printer that was not reset by the connection answers the probing G4 P0 with an ok that carries a report
            return self._out([("ok T:21.5 /0.0 B:22.25 /0.0", ("hs", line))])
        if line == "G4 P0" or line.startswith("N") or line.startswith("M110"):
            return self._out([("ok", ("hs", line))])
        k = len(self.user)
        self.user.append(line)
        b = self.behaviours[k] if k < len(self.behaviours) else "ok"
        val = f"{k + 1}1.25"
        if b == "ok":
            return self._out([("ok", ("ack", k))])
        if b == "status+ok":
            return self._out([("echo:busy: processing", ("info", k)), ("ok", ("ack", k))])
        if b == "report+ok":
            return self._out([(f"X:{val} Y:0.00 Z:0.00 E:0.00 Count X:0 Y:0 Z:0", ("report", k, ("X", float(val)))), ("ok", ("ack", k))])
        if b == "probe+ok":
            # Grbl's comma-separated multi-axis forms
            return self._out([(f"[PRB:{val},2.500,-3.500:1]", ("report", k, ("X", float(val)))), ("ok", ("ack", k))])
        if b == "alarm-status+ok":
            # a status report whose *state word* is Alarm / whose text mentions an error: a report, not an error reply
            return self._out([(f"<Alarm|MPos:{val},2.000,3.000|FS:0,0|Pn:X>", ("report", k, ("X", float(val)))), ("echo: last error cleared !! ok", ("info", k)), ("ok", ("ack", k))])
        if b == "int-report-in-ok":
            # whole-number readings (no decimal point), as many firmwares print them
            return self._out([(f"ok T:{k + 2}10 /210 B:60 /60", ("ack", k, ("T", float(f"{k + 2}10"))))])
        if b == "grbl-status+ok":
            return self._out([(f"<Idle|MPos:{val},0.000,0.000|FS:500,8000>", ("report", k, ("X", float(val)))), ("ok", ("ack", k))])
        if b == "report-in-ok":
            return self._out([(f"ok T:{val} /0.0 B:60.0 /0.0", ("ack", k, ("T", float(val))))])
        if b == "ok+async-alarm":
            # the statement is acknowledged; later the machine reports an alarm on its own (limit switch, door ...)
            return self._out([("ok", ("ack", k)), ("ALARM:9", ("async-err", k))])
        if b == "error":
            return self._out([("error:20", ("err", k))])
        if b == "alarm":
            return self._out([("ALARM:1", ("err", k))])
        if b == "bang":
            return self._out([("!! printer halted", ("err", k))])
        if b == "Error+ok":
            return self._out([("Error:Printer halted. kill() called!", ("err", k)), ("ok", ("extra-ok", k))])
        raise ValueError(b)


def run_execution(cfg, prefix, record=False):
    if cfg.get("debug_log"):
        with debug_logging():              # the application runs the sender with DEBUG logging switched on
            return _run_execution(cfg, prefix, record)
    return _run_execution(cfg, prefix, record)


def _run_execution(cfg, prefix, record=False):
    stmts = cfg["statements"]
    fw = DirectFirmware(cfg["behaviours"], greeting=cfg["greeting"])
    fw.hs_report = bool(cfg.get("hs_report"))
    fw.hs_error = bool(cfg.get("hs_error"))
    script = {"flow_control": cfg.get("mode", "serial") == "socket"}
    if "loss" in cfg["behaviours"]:
        # the connection drops when the k-th user statement is written: count handshake writes at run time
        script["loss_mode"] = cfg.get("loss_mode", "error")
    ex = Execution(prefix, fw, eager_env=cfg["eager"], line_points=cfg["line_points"], horizon=cfg.get("horizon", 12000),
                   script=script, record_points=record)
    if "loss" in cfg["behaviours"]:
        kloss = cfg["behaviours"].index("loss")
        real_receive = fw.receive

        def receive(line):
            if not (line == "G4 P0" or line.startswith("N") or line.startswith("M110")) and len(fw.user) == kloss:
                fw.wire.append(line)
                fw.user.append(line)
                ex.dev.lost = True
                return []
            return real_receive(line)
        fw.receive = receive
    marks = {"calls": []}

    def rx_count():
        return sum(1 for k, _ in ex.dev.log if k == "rx")

    def body():
        sleep = ex.shims.time.sleep
        if cfg.get("mode", "serial") == "socket":
            w = PW.PrintrunWriter("socket", "localhost", "8000", 0)
        else:
            w = PW.PrintrunWriter("serial", "localhost", "fake", 115200)
        marks["writer"] = w
        try:
            w.connect()
        except Exception as e:    # noqa: BLE001
            marks["connect_exc"] = e
            return
        marks["connected_at"] = len(ex.dev.log)
        marks["readings_after_connect"] = {n: w.get_parameter(n) for n in ("T", "B")}
        if cfg["regime"] == "Q":
            idle = 0
            while idle < 3:
                sleep(0.01)
                dev = w._device
                busy = ex.dev.pending or ex.dev.rx or (dev is not None and (dev.printing or dev.print_thread is not None))
                idle = 0 if busy else idle + 1
        marks["first_write_at"] = len(ex.dev.log)
        for k, s in enumerate(stmts):
            rec = {"k": k, "stmt": s, "exc": None, "rx_at_start": rx_count()}
            try:
                w.write((s + "\n").encode("utf-8"))
            except Exception as e:    # noqa: BLE001
                rec["exc"] = e
            rec["rx_at_return"] = rx_count()
            rec["log_at_return"] = len(ex.dev.log)
            rec["readings"] = {n: w.get_parameter(n) for n in ("X", "T")}
            marks["calls"].append(rec)
            if rec["exc"] is not None and cfg["behaviours"][k] == "loss":
                break
            if cfg.get("gap"):
                # the caller does something else for a while: everything the device still has to say arrives meanwhile
                idle = 0
                while idle < 3:
                    sleep(0.01)
                    idle = 0 if (ex.dev.pending or ex.dev.rx) else idle + 1
        try:
            w.disconnect(True)
        except Exception as e:    # noqa: BLE001
            marks["disconnect_exc"] = e
        marks["rx_at_disconnect"] = rx_count()
        if cfg.get("reconnect"):
            # second session on the same writer object: write() connects again by itself
            rec = {"k": len(stmts), "stmt": "G1 X9", "exc": None}
            try:
                w.write(b"G1 X9\n")
            except Exception as e:    # noqa: BLE001
                rec["exc"] = e
            rec["rx_at_return"] = rx_count()
            marks["second_session"] = rec
            try:
                w.disconnect(True)
            except Exception as e:    # noqa: BLE001
                marks["disconnect2_exc"] = e
        marks["done"] = True
    with ex:
        leaked = ex.run(body)
    return ex, marks, leaked


def check_execution(cfg, ex, marks, leaked):
    P = []
    S, fw, dev = ex.S, ex.fw, ex.dev
    stmts, beh = cfg["statements"], cfg["behaviours"]
    # threads that did not unwind in time after an abort are a property of the harness and of machine load,
    # never a verdict about gscrib: they are counted by the caller, not reported
    if cfg.get("hs_error"):
        # the device answered the handshake with an error reply: connect() reports it (it neither hangs nor pretends all is well)
        if S.status != "done":
            P.append((f"hang-during-connect:{S.status}", f"connect() never returned after the device refused the handshake ({S.status} after {S.steps} steps)"))
        elif "connect_exc" not in marks and not any(isinstance(c.get("exc"), Exception) for c in marks.get("calls", [])):
            P.append(("handshake-error-not-raised", "the device answered M110 with error:20; neither connect() nor the first write() raised"))
        return P
    if "connect_exc" in marks:
        if S.timeouts_fired:
            return P        # the connection time-out was made to expire: connect() is entitled to give up
        P.append(("connect-raised", f"connect() raised {marks['connect_exc']!r}"))
        return P
    produced = fw.produced
    first_start = marks["calls"][0].get("rx_at_start") if marks.get("calls") else None
    stale_source = None       # first stale acknowledgement seen in this execution
    surfaced = set()          # unsolicited alarms already raised to the caller
    lost_k = beh.index("loss") if "loss" in beh else None

    def tag_index(pred):
        for i, (_, t) in enumerate(produced):
            if pred(t):
                return i
        return None

    if S.status != "done":
        # a hang: which call was the harness in?
        done_calls = len(marks["calls"])
        what = f"write({done_calls})" if done_calls < len(stmts) and "done" not in marks else "disconnect"
        kind = "hang-after-connection-loss" if lost_k is not None and done_calls >= lost_k else "hang"
        P.append((f"{kind}:{S.status}", f"{what} never returned ({S.status} after {S.steps} steps); threads: "
                  + ", ".join(f"{t.name}={t.status}@{t.label}" for t in S.threads) + f"; behaviours {beh}"))
        return P
    for t in S.threads:
        if t.exc is not None:
            P.append((f"thread-crashed:{t.name}", f"{t.name} died with {t.exc!r}"))
    # (a) delivery: exactly once, in order, unmodified
    sent = fw.user
    ncalls = len(marks["calls"])
    want = stmts[:ncalls] if lost_k is None else stmts[:min(ncalls, lost_k + 1)]
    if "second_session" in marks:
        sent = sent[:len(want)] if sent[:len(want)] == want else sent
    if sent != want:
        P.append(("statements-not-delivered-once-in-order", f"device received {sent}, caller wrote {want}"))
    # per call
    for rec in marks["calls"]:
        k, exc = rec["k"], rec["exc"]
        b = beh[k]
        consumed = rec["rx_at_return"]
        if lost_k is not None and k > lost_k:
            continue      # the link is gone: nothing is demanded of later calls (they fail with DeviceError)
        if b == "loss":
            if exc is None:
                src = releasing_source(produced, consumed, k, first_start)
                if src:
                    stale_source = stale_source or src
                    P.append((f"stale-ok:{stale_source}", f"write({k}) returned normally although the connection was lost: it was released by a stale ok ({src})"))
                else:
                    P.append(("connection-loss-not-raised", f"write({k}) returned normally although the connection was lost"))
            elif not isinstance(exc, DeviceError):
                P.append(("connection-loss-wrong-exception", f"write({k}) raised {exc!r}"))
            continue
        term = tag_index(lambda t: t[0] in ("ack", "err") and t[1] == k)
        own_consumed = term is not None and consumed > term
        # an unsolicited alarm consumed before this call returned surfaces here (at the latest)
        async_seen = [i for i, (_, t) in enumerate(produced) if t[0] == "async-err" and i < consumed and i not in surfaced]
        if async_seen and exc is not None and isinstance(exc, DeviceError) and "ALARM:9" in str(exc):
            surfaced.update(async_seen)
            term = tag_index(lambda t: t[0] in ("ack", "err") and t[1] == k)
            if b != "loss" and (term is None or consumed <= term):
                # the alarm released this call before its own acknowledgement arrived: every later acknowledgement is
                # shifted by one (known finding), the alarm itself surfaced where it should
                stale_source = stale_source or "shift-after-unsolicited-alarm"
            continue
        if b in ERRORS:
            if exc is None:
                # returned normally: was it released by a stale ok?
                src = releasing_source(produced, consumed, k, first_start)
                if src and not own_consumed:
                    stale_source = stale_source or src
                    P.append((f"stale-ok:{stale_source}", f"write({k}) [{b}] returned before its own reply was consumed (released by {src}); the error surfaces later or never"))
                else:
                    P.append(("error-reply-not-raised", f"write({k}) returned normally although the device answered {b}"))
            elif not isinstance(exc, DeviceError):
                P.append(("error-reply-wrong-exception", f"write({k}) raised {exc!r} for device reply {b}"))
            continue
        # normal behaviours
        if exc is not None:
            # an exception on a healthy statement: caused by an earlier error reply surfacing late?
            if stale_source:
                P.append((f"stale-ok:{stale_source}", f"write({k}) raised {exc!r}: the error reply of an earlier statement surfaced here"))
            else:
                P.append(("spurious-exception", f"write({k}) [{b}] raised {exc!r}"))
            continue
        if not own_consumed:
            src = releasing_source(produced, consumed, k, first_start)
            if src or stale_source:
                stale_source = stale_source or src
                P.append((f"stale-ok:{stale_source}", f"write({k}) returned after {consumed} replies were consumed; its own acknowledgement is reply #{term}: released by a stale ok ({src or 'shifted by the earlier stale ok'})"))
            else:
                P.append(("write-returned-before-own-ack", f"write({k}) returned after {consumed} replies were consumed; its own acknowledgement is reply #{term} ({produced})"))
            continue
        # readings requested by this statement are available
        for _, t in produced:
            if t[0] == "report" and t[1] == k:
                name, val = t[2]
                if rec["readings"].get(name) != val:
                    P.append(reading_problem(stale_source, k, b, name, rec["readings"].get(name), val))
            if t[0] == "ack" and t[1] == k and len(t) > 2:
                name, val = t[2]
                if rec["readings"].get(name) != val:
                    P.append(reading_problem(stale_source, k, b, name, rec["readings"].get(name), val))
    if marks["calls"] and lost_k is None:
        # an alarm the host had already read when a later write() was made must have been raised by one of those writes
        for i, (_, t) in enumerate(produced):
            if t[0] == "async-err" and i not in surfaced:
                later = [c for c in marks["calls"] if c["k"] > t[1] and c["rx_at_return"] > i]
                seen_before_a_later_call_started = [c for c in marks["calls"] if c["k"] > t[1] and c.get("rx_at_start", 10 ** 9) > i]
                if seen_before_a_later_call_started and not any(isinstance(c["exc"], DeviceError) for c in marks["calls"] if c["k"] > t[1]):
                    if stale_source:
                        P.append((f"stale-ok:{stale_source}", "an unsolicited alarm was not raised (acknowledgements shifted by the stale ok)"))
                    else:
                        P.append(("unsolicited-alarm-never-raised", f"ALARM line (reply #{i}) was read by the host before write({seen_before_a_later_call_started[0]['k']}) started, but no later call raised a DeviceError"))
    # second session: the statement is delivered and the call returns (released by its own ack or - known finding - by
    # the stale ok of the second handshake, which no caller can drain because write() connects by itself)
    if "second_session" in marks and lost_k is None:
        rec = marks["second_session"]
        gave_up = S.timeouts_fired and rec["exc"] is not None and "timed out" in str(rec["exc"])
        if gave_up:
            pass        # the connection time-out of the second session was made to expire: connecting is entitled to give up
        elif "G1 X9" not in fw.user[len(want):] and sent == want:
            P.append(("second-session-statement-not-delivered", f"after disconnect + implicit reconnect the device received {fw.user}"))
        if rec["exc"] is not None and not gave_up and not stale_source and not any(b in ERRORS for b in beh):
            P.append(("second-session-raised", f"write() in the second session raised {rec['exc']!r}"))
    # (f) disconnect(wait=True)
    if "disconnect_exc" in marks and lost_k is None:
        if stale_source:
            P.append((f"stale-ok:{stale_source}", f"disconnect(True) raised {marks['disconnect_exc']!r} (late error after the stale ok)"))
        else:
            P.append(("disconnect-raised", f"disconnect(True) raised {marks['disconnect_exc']!r}"))
    if lost_k is None and marks["calls"]:
        last_terms = [i for i, (_, t) in enumerate(produced) if t[0] in ("ack", "err") and t[1] < len(stmts)]
        if last_terms and marks["rx_at_disconnect"] <= max(last_terms):
            if stale_source:
                P.append((f"stale-ok:{stale_source}", "disconnect(True) returned before the reply to the last statement was consumed (shifted acknowledgements)"))
            else:
                P.append(("disconnect-before-last-ack", f"disconnect(True) returned after {marks['rx_at_disconnect']} replies; produced {produced}"))
    return P


def reading_problem(stale_source, k, b, name, got, val):
    if stale_source:
        # acknowledgements are shifted by one (known finding): this call was released by the previous statement's reply while
        # its own reply had been read from the link but not yet processed
        return (f"stale-ok:{stale_source}", f"write({k}) [{b}] returned before its own reply was processed (shifted acknowledgements): get_parameter({name!r}) = {got!r}, expected {val}")
    return ("reading-not-available-at-return", f"write({k}) [{b}] returned but get_parameter({name!r}) = {got!r}, expected {val}")


def releasing_source(produced, consumed, k, first_start=None):
    """Which reply released write(k)? Look at the last acknowledging line among the consumed ones that does not
    belong to statement k."""
    for i in range(min(consumed, len(produced)) - 1, -1, -1):
        line, t = produced[i]
        low = line.lower()
        if not (low.startswith("ok") or low.startswith(("error", "alarm", "!!"))):
            continue
        if t[0] == "hs":
            return "handshake-M110" if "M110" in t[1] else "handshake-G4P0"
        if t[0] == "extra-ok":
            return "ok-after-Error"
        if t[0] == "async-err":
            return "shift-after-unsolicited-alarm"
        if t[0] in ("ack", "err") and t[1] != k:
            if t[1] > k:
                return None
            # the reply of an earlier statement released this call: acknowledgements are shifted. Blame the first
            # extra releasing line seen so far (an unsolicited alarm also releases the waiter)
            if any(tt[0] == "async-err" for _, tt in produced[:i]):
                return "shift-after-unsolicited-alarm"
            # an extra acknowledging line that was consumed after the caller's first write() had started released that
            # earlier call; its own acknowledgement then arrived late and released this one (acknowledgements shifted by one)
            if first_start is not None:
                for j in range(first_start, i):
                    tt = produced[j][1]
                    if tt[0] == "hs":
                        return "handshake-M110" if "M110" in tt[1] else "handshake-G4P0"
                    if tt[0] == "extra-ok":
                        return "ok-after-Error"
            return "reply-of-earlier-statement"
        return None
    return None


import multiprocessing as _mp

SPLIT_STATUS = []                # status of the default execution of every configuration split so far (parent process)

STUCK = _mp.Value("i", 0)        # executions that ran into the horizon / a deadlock so far (shared with the forked workers)
STUCK_LIMIT = 400


def _work(item):
    cfg, root, bound, cap = item
    if STUCK.value >= STUCK_LIMIT:
        return [], 0, True, set(), 0, {}
    install_line_points()
    found = {}
    stats = {"points": 0, "wires": set(), "statuses": {}}

    def run_one(prefix):
        ex, marks, leaked = run_execution(cfg, prefix)
        stats["points"] += ex.S.steps
        stats["wires"].add(digest((ex.dev.log, [(c["rx_at_return"], repr(c["exc"])) for c in marks["calls"]])))
        stats["statuses"][ex.S.status] = stats["statuses"].get(ex.S.status, 0) + 1
        if ex.S.status != "done":
            with STUCK.get_lock():
                STUCK.value += 1
        problems = check_execution(cfg, ex, marks, leaked)
        for sig, msg in problems:
            if sig not in found:
                found[sig] = [msg, list(prefix), 0]
            found[sig][2] += 1
        return ex.S.trace, bool(problems)
    n, capped = ES.explore(run_one, bound, max_executions=cap, root=root)
    out = [(sig, msg, {"cfg": cfg, "prefix": prefix}, cnt) for sig, (msg, prefix, cnt) in found.items()]
    return out, n, capped, stats["wires"], stats["points"], stats["statuses"]


def split(cfg, bound, cap):
    install_line_points()
    a, ma, la = run_execution(cfg, [])
    SPLIT_STATUS.append(a.S.status)
    if a.S.status != "done":
        return [(cfg, [], 0, None)], False        # the default execution does not terminate: _work reports it, nothing to refine
    b, mb, lb = run_execution(cfg, [])
    nondet = a.dev.log != b.dev.log or a.S.trace != b.S.trace
    items = [(cfg, [], 0, None)]
    if bound >= 1 and a.S.status == "done":
        trace = a.S.trace
        for i in range(len(trace)):
            for alt in range(1, trace[i][1]):
                items.append((cfg, [c for c, _, _ in trace[:i]] + [alt], bound, cap))
        if cap is not None:
            # the cap is a budget for the whole configuration: it is shared by the sub-searches
            per = max(200, cap // max(1, len(items) - 1))
            items = [items[0]] + [(c, r, b, per) for c, r, b, _ in items[1:]]
    return items, nondet


def plan(tier):
    items = []
    two = ["G1 X1", "M114"]
    three = ["G1 X1", "M114", "M105"]

    def cfgs(stmts, behs, regimes, greetings, eagers, lp):
        for regime in regimes:
            for greeting in greetings:
                for eager in eagers:
                    yield {"statements": stmts, "behaviours": list(behs), "regime": regime, "greeting": greeting, "eager": eager, "line_points": lp}
    healthy = ["ok", "status+ok", "report+ok", "report-in-ok"]
    # readings in Grbl's multi-axis forms (probe result, status report)
    for behs in (("probe+ok", "ok"), ("report+ok", "probe+ok"), ("grbl-status+ok", "probe+ok"), ("error", "grbl-status+ok"),
                 ("int-report-in-ok", "report+ok"), ("ok", "int-report-in-ok"), ("alarm-status+ok", "ok"), ("ok", "alarm-status+ok")):
        for c in cfgs(two, behs, ("Q", "L"), (None,), (False, True), True):
            items.append((c, 0 if tier == "quick" else 1, None))
    for c in cfgs(two, ("ok", "ok"), ("Q", "L"), (None, "start"), (False, True), True):
        items.append(({**c, "hs_error": True}, 0, None))
    for c in cfgs(two, ("ok", "ok"), ("Q",), (None,), (False,), False):
        items.append(({**c, "hs_error": True}, 1, None))
    for behs in (("ok", "report+ok"), ("error", "ok"), ("probe+ok", "alarm")):
        for c in cfgs(two, behs, ("Q", "L"), (None,), (False, True), True):
            items.append(({**c, "debug_log": True}, 0, None))
        for c in cfgs(two, behs, ("Q",), (None,), (False,), False):
            items.append(({**c, "debug_log": True}, 1, None))
    if tier == "quick":
        # every behaviour at every position of a 2-statement history, default schedules of both policies
        for behs in itertools.product(BEHAVIOURS, repeat=2):
            if behs.count("loss") > 1:
                continue
            for c in cfgs(two, behs, ("Q", "L"), (None, "start"), (False, True), True):
                items.append((c, 0, None))
        # one deviation, line-level, on representative histories
        for behs in (("ok", "report+ok"), ("status+ok", "report-in-ok"), ("error", "ok"), ("report+ok", "alarm"), ("ok", "loss"), ("bang", "report+ok"),
                     ("ok+async-alarm", "ok")):
            for c in cfgs(two, behs, ("Q", "L"), (None,), (False,), True):
                items.append((c, 1, None))
        for c in cfgs(three, ("report+ok", "ok", "report-in-ok"), ("Q",), (None, "start"), (False, True), False):
            items.append((c, 2, 20000))
        # pauses between the caller's statements: unsolicited lines arrive while no write() is in flight
        for behs in (("ok+async-alarm", "ok", "report+ok"), ("ok", "ok+async-alarm", "ok"), ("status+ok", "report+ok", "ok"),
                     ("ok+async-alarm", "loss", "ok"), ("error", "loss", "ok")):
            for c in cfgs(three, behs, ("Q", "L"), (None,), (False, True), True):
                items.append(({**c, "gap": True}, 0, None))
            for c in cfgs(three, behs, ("Q",), (None,), (False,), False):
                items.append(({**c, "gap": True}, 1, None))
        # a statement with non-ASCII text (the builder hands comments to direct writers as UTF-8 like to any other writer)
        for behs in (("ok", "report+ok"), ("status+ok", "error")):
            for c in cfgs(["; café ü ∅", "M114"], behs, ("Q", "L"), (None,), (False, True), True):
                items.append((c, 0, None))
            # runs of blanks and tabs inside a statement reach the device as they are
            for c in cfgs(["M117 Layer  1  of   10", "G1\tX20\t\tY20 ;  aligned   comment"], behs, ("Q", "L"), (None,), (False, True), True):
                items.append((c, 0, None))
        # socket writer (device with flow control): same contract
        for behs in (("ok", "report+ok"), ("error", "report-in-ok"), ("status+ok", "loss"), ("Error+ok", "ok")):
            for c in cfgs(two, behs, ("Q", "L"), (None,), (False, True), True):
                items.append(({**c, "mode": "socket"}, 1 if behs[0] == "ok" else 0, None))
        # the peer closes the connection in an orderly way (end of stream instead of a read error) while a write waits for its reply
        for behs in (("ok", "loss"), ("loss", "ok")):
            for c in cfgs(two, behs, ("Q", "L"), (None,), (False, True), True):
                items.append(({**c, "mode": "socket", "loss_mode": "eof"}, 0, None))
                items.append(({**c, "loss_mode": "eof"}, 0, None))
    else:
        for behs in itertools.product(BEHAVIOURS, repeat=3):
            if behs.count("loss") > 1:
                continue
            for c in cfgs(three, behs, ("Q", "L"), (None, "start"), (False, True), True):
                items.append((c, 0, None))
        for behs in itertools.product(BEHAVIOURS, repeat=2):
            if behs.count("loss") > 1:
                continue
            for c in cfgs(two, behs, ("Q", "L"), (None, "start"), (False, True), False):
                items.append((c, 1, None))
            for c in cfgs(two, behs, ("Q",), (None,), (False,), True):
                items.append((c, 1, None))
        for behs in (("report+ok", "ok"), ("ok", "error"), ("status+ok", "report-in-ok"), ("ok", "loss")):
            for c in cfgs(two, behs, ("Q", "L"), (None,), (False, True), False):
                items.append((c, 2, 60000))
        for behs in itertools.product(BEHAVIOURS, repeat=2):
            if behs.count("loss") > 1:
                continue
            for c in cfgs(two, behs, ("Q", "L"), (None,), (False, True), True):
                items.append(({**c, "mode": "socket"}, 0, None))
            for c in cfgs(two, behs, ("Q",), (None,), (False,), False):
                items.append(({**c, "mode": "socket"}, 1, None))
        for behs in (("ok", "report+ok"), ("error", "ok"), ("status+ok", "report-in-ok")):
            for c in cfgs(two, behs, ("Q", "L"), (None, "start"), (False, True), True):
                items.append(({**c, "reconnect": True}, 0, None))
            for c in cfgs(two, behs, ("Q",), (None,), (False,), False):
                items.append(({**c, "reconnect": True}, 1, None))
        for behs in itertools.product(("ok", "report+ok", "error", "loss"), repeat=2):
            if behs.count("loss") > 1:
                continue
            for c in cfgs(["; café ü ∅", "M117 Grüße"], behs, ("Q", "L"), (None,), (False, True), True):
                items.append((c, 0, None))
        for behs in itertools.product(("ok", "ok+async-alarm", "report+ok", "error"), repeat=3):
            for c in cfgs(three, behs, ("Q", "L"), (None,), (False, True), True):
                items.append(({**c, "gap": True}, 0, None))
        for loss_mode in ("eof",):
            for behs in (("loss", "ok"), ("ok", "loss")):
                for c in cfgs(two, behs, ("Q", "L"), (None,), (False,), True):
                    items.append(({**c, "loss_mode": loss_mode}, 1, None))
    return items


def run(tier, seed):
    res = Result("model_checking")
    plan_items = plan(tier)
    work, owner = [], []
    stuck_defaults, skipped_plan = 0, 0
    for pi, (cfg, bound, cap) in enumerate(plan_items):
        if stuck_defaults >= 6:
            # the default executions of several configurations do not terminate (each costs a full horizon, and this phase runs
            # in the parent process): the rest of the plan is left out - the configurations split so far carry the verdict
            skipped_plan = len(plan_items) - pi
            break
        items, nondet = split(cfg, bound, cap)
        if SPLIT_STATUS and SPLIT_STATUS[-1] != "done":
            stuck_defaults += 1
        if nondet:
            res.harness_errors.append(f"default schedule of {cfg} is not reproducible")
        work += items
        owner += [pi] * len(items)
    order = sorted(range(len(work)), key=lambda i: -(work[i][2] * 2 + work[i][0]["line_points"]))
    results = pmap(_work, [work[i] for i in order], chunksize=1)
    execs = points = 0
    statuses, by_bound, wires_by_cfg, capped = {}, {}, {}, []
    for i, (out, n, was_capped, ws, npts, st) in zip(order, results):
        cfg, root, bound, cap = work[i]
        pi = owner[i]
        execs += n
        points += npts
        wires_by_cfg.setdefault(pi, set()).update(ws)
        for k, v in st.items():
            statuses[k] = statuses.get(k, 0) + v
        key = f"bound={plan_items[pi][1]},{'line' if cfg['line_points'] else 'sync'}-level,regime={cfg['regime']}"
        by_bound[key] = by_bound.get(key, 0) + n
        if was_capped:
            capped.append({"cfg": cfg, "root": root, "cap": cap})
        for sig, msg, rp, cnt in out:
            for _ in range(min(cnt, 3)):
                res.add(Violation(sig, msg, rp))
    if statuses.get("stuck"):
        res.harness_errors.append(f"{statuses['stuck']} executions got stuck (scheduler lost the baton)")
    wires = sum(len(v) for v in wires_by_cfg.values())
    res.coverage = {
        "states": wires, "transitions": points, "traces_validated_against_impl": execs,
        "evaluations": execs, "distinct_nontrivial": wires,
        "rule": ("stateless exploration of the real PrintrunWriter + printcore threads over a fake serial device under a deterministic scheduler; configuration = statement history "
                 "(2-3 statements incl. queries) x device behaviour per statement (ok, unsolicited status then ok, report then ok, report inside the ok line, error:/ALARM:/!! instead of ok, "
                 "Marlin Error then ok, connection loss) x greeting x latency regime (Q: first write only after the connect handshake has drained; L: arbitrary latency throughout) x default "
                 "policy (lazy/eager device); every schedule within `bound` deviations is run; states = distinct (wire log, return points), transitions = scheduling steps"),
        "exhaustive": not capped and not skipped_plan,
        "plan_items_skipped_after_non_terminating_defaults": skipped_plan,
        "exhaustive_note": "every schedule within the stated deviation bound of every listed configuration was run" if not capped else "execution caps hit, see caps_hit",
        "caps_hit": capped, "configurations": len(plan_items), "executions_by_bound": by_bound, "termination_statuses": statuses,
        "samples": sample_executions(plan_items),
    }
    res.assumptions = ["thread switches only at scheduling points", "firmware model: one terminal reply per statement, replies delivered in order",
                       "time-outs of Event.wait never fire; serial read time-outs and sleeps are yields", "greetings other than none/'start' are not covered"]
    return res


def sample_executions(plan_items):
    """Two executions written out: the default schedule of a faulty configuration and one of its one-deviation neighbours."""
    out = []
    pick = [p for p in plan_items if p[1] >= 1][:1] or plan_items[:1]
    for cfg, bound, cap in pick:
        for prefix in ([], None):
            if prefix is None:
                ex0, _, _ = run_execution(cfg, [])
                tr = ex0.S.trace
                i = next((i for i in range(len(tr) // 2, len(tr)) if tr[i][1] > 1), None)
                if i is None:
                    continue
                prefix = [c for c, _, _ in tr[:i]] + [1]
            ex, marks, _ = run_execution(cfg, prefix)
            out.append({"cfg": cfg, "schedule_prefix_nondefault_choices": [(i, c) for i, c in enumerate(prefix) if c], "choice_points": len(ex.S.trace),
                        "status": ex.S.status, "wire": [list(x) for x in ex.dev.log][:40]})
    return out


def replay(body):
    rp = body["replay"]
    install_line_points()
    ex, marks, leaked = run_execution(rp["cfg"], rp["prefix"])
    P = check_execution(rp["cfg"], ex, marks, leaked)
    return {"wire": [list(x) for x in ex.dev.log], "calls": [{k: repr(v) for k, v in c.items()} for c in marks["calls"]],
            "status": ex.S.status, "violations": P}
