"""C07 - Reported machine state mirrors the emitted program (E1)."""

from ._base import BuilderSystem, run_configs, replay_history, with_debug_logging, with_bystander, replayed
from ..common import rf

SPIN = {"clockwise": "M3", "counter": "M4"}
POWER = {"constant": "M3", "dynamic": "M4"}
COOL = {"off": None, "mist": "M7", "flood": "M8"}
UNITS = {"inches": "G20", "millimeters": "G21"}
PLANE = {"xy": "G17", "zx": "G18", "yz": "G19"}
EXTR = {"absolute": "M82", "relative": "M83"}
FEEDM = {"1/time": "G93", "units/min": "G94", "units/rev": "G95"}
NEG_INF = float("-inf")


def ev(e):
    return getattr(e, "value", e)


class WordHook:
    """Move hook that rewrites F and adds E; `fresh` returns a new mapping instead of mutating its argument."""

    def __init__(self, fresh):
        self.fresh = fresh

    def __call__(self, origin, target, params, state):
        out = type(params)(params) if self.fresh else params
        if out.get("F") is not None:
            out["F"] = out.get("F") / 2
        out["E"] = 0.25 if self.fresh else 0.75
        return out


class C07System(BuilderSystem):
    deep = True

    def __init__(self, grid, bounded=False, hooks=False):
        self.grid = grid
        self.cfg = {}
        self.bounded = bounded
        self.hooks = hooks

    def setup(self, st):
        if self.hooks:
            st.g.add_hook(WordHook(False))
            st.g.add_hook(WordHook(True))
        if self.bounded:
            # rejected calls become part of the history: the state must keep mirroring the *emitted* program
            st.g.set_bounds("feed-rate", 0, 2000)
            st.g.set_bounds("tool-power", 0, 100)
            st.g.set_bounds("hotend-temperature", 0, 60)
            st.g.set_bounds("bed-temperature", 0, 60)
            st.g.set_bounds("chamber-temperature", 0, 60)
            st.g.set_bounds("axes", (-5, -5, -5), (5, 5, 5))

    def fresh(self):
        st = super().fresh()
        st.started_by = None
        return st

    def ops(self, st):
        g0, g1, g2, g3 = self.grid
        ops = []
        if self.bounded:
            return [
                ["set_feed_rate", [g2]], ["set_feed_rate", [5000]], ["set_tool_power", [g2]], ["set_tool_power", [g3]],
                ["tool_on", ["clockwise", g2]], ["tool_on", ["ccw", g3]], ["power_on", ["dynamic", g3]], ["tool_off"], ["power_off"],
                ["move", [], {"x": 1, "F": g2}], ["move", [], {"x": 2, "F": 5000}], ["move", [], {"x": 1, "F": g1, "S": g3}],
                ["move", [], {"y": 1, "S": g2, "E": 2}], ["move", [], {"x": 99, "F": g1, "E": 7}], ["rapid", [], {"z": 1, "S": 500, "F": g2}],
                ["probe", ["towards"], {"z": -1, "F": g2, "S": g3}], ["probe", ["away"], {"z": -9, "F": g1}],
                ["move_absolute", [], {"x": 3, "f": g1, "s": 300}], ["set_axis", [], {"x": 77, "E": 3}], ["set_axis", [], {"E": 1}],
                ["set_hotend_temperature", [g2]], ["set_hotend_temperature", [200]], ["halt", ["wait-for-hotend"], {"S": 200}],
                ["halt", ["wait-for-hotend"], {"S": g1}], ["set_bed_temperature", [150]], ["set_bed_temperature", [g2]],
                ["set_chamber_temperature", [150]], ["halt", ["wait-for-bed"], {"S": 150}], ["halt", ["wait-for-chamber"], {"R": 150}],
                ["coolant_on", ["mist"]], ["coolant_off"], ["tool_change", ["manual", 1]],
                ["set_distance_mode", ["relative"]], ["set_distance_mode", ["absolute"]], ["pause"],
            ]
        for v in (g0, g2, g3):
            ops += [["set_feed_rate", [v]], ["set_tool_power", [v]]]
        for v in (g2, g0):
            ops += [["tool_on", ["clockwise", v]], ["tool_on", ["ccw", v]], ["power_on", ["constant", v]],
                    ["power_on", ["dynamic", v]]]
        # non-finite values are refused: the state keeps mirroring the (unchanged) program
        ops += [["tool_on", ["clockwise", "nan"]], ["power_on", ["constant", "inf"]], ["set_tool_power", ["nan"]], ["set_feed_rate", ["nan"]],
                ["set_bed_temperature", ["nan"]], ["move", [], {"x": 1, "S": "nan"}]]
        ops += [["tool_off"], ["power_off"], ["coolant_on", ["mist"]], ["coolant_on", ["flood"]], ["coolant_off"],
                ["tool_change", ["manual", 1]], ["tool_change", ["automatic", 12]]]
        ops += [["move", [], {"x": 1, "F": g3}], ["move", [], {"y": 1, "F": g0}], ["move", [], {"x": 2, "S": g1}],
                ["move", [], {"x": 2, "S": g0}], ["rapid", [], {"z": 1, "F": g2, "S": g2}], ["rapid", [], {"x": 0}],
                ["move_absolute", [], {"x": 3, "f": g1}], ["rapid_absolute", [], {"y": 3, "s": g3}],
                ["probe", ["towards"], {"z": -1, "F": g2}], ["probe", ["away"], {"z": 1, "S": g1}],
                ["move", [], {"x": 1, "E": 1.5}], ["move", [], {"x": 1, "e": 0, "P": g1}],
                ["set_axis", [], {"E": 0}], ["set_axis", [], {"x": 1, "E": 5, "F": g1}], ["auto_home", [], {"x": 0}],
                ["auto_home", [], {}]]
        for t in ("bed", "hotend", "chamber"):
            ops += [[f"set_{t}_temperature", [g2]], [f"set_{t}_temperature", [g0]],
                    ["halt", [f"wait-for-{t}"], {"S": g1}], ["halt", [f"wait-for-{t}"], {"r": g3}], ["halt", [f"wait-for-{t}"]]]
        # halts that are not temperature waits, carrying S / R / P words (e.g. Marlin's timed pause M0 S5)
        for mode, kw in (("pause", {"S": g1}), ("pause", {"P": g3}), ("optional-pause", {"S": g2}), ("end-without-reset", {"R": g1}),
                         ("end-with-reset", {"S": g3}), ("pallet-exchange", {"s": g1}), ("wait-for-motion", {"R": g2}), ("off", {"S": g1})):
            ops.append(["halt", [mode], kw])
        # a second output fails while the call writes: the state keeps mirroring what reached the first output
        ops += [["!fault", ["tool_on", ["clockwise", g2]]], ["!fault", ["move", [], {"x": 2, "F": g1, "S": g2}]], ["!fault", ["set_hotend_temperature", [g2]]],
                ["!fault", ["set_length_units", ["in"]]], ["!fault", ["tool_change", ["manual", 3]]], ["!fault", ["coolant_on", ["mist"]]]]
        ops += [["set_distance_mode", ["relative"]], ["set_distance_mode", ["absolute"]],
                ["set_extrusion_mode", ["relative"]], ["set_extrusion_mode", ["absolute"]],
                ["set_feed_mode", ["1/time"]], ["set_feed_mode", ["units/min"]], ["set_feed_mode", ["units/rev"]],
                ["set_length_units", ["in"]], ["set_length_units", ["mm"]],
                ["set_plane", ["xy"]], ["set_plane", ["zx"]], ["set_plane", ["yz"]],
                ["sleep", [1]], ["set_fan_speed", [255]], ["set_fan_speed", [0]], ["query", ["position"]],
                ["query", ["temperature"]], ["pause"], ["stop"], ["wait"], ["emergency_halt", ["x"]],
                ["set_temperature_units", ["kelvin"]], ["set_temperature_units", ["celsius"]],
                ["set_time_units", ["ms"]], ["set_resolution", [0.5]], ["set_direction", ["ccw"]],
                ["comment", ["S99 F99 M3"]]]
        return ops

    def step(self, st, op):
        problems = []
        exc, chunks = self.apply(st, op)
        self.feed(st, chunks, problems)
        inner = op[1] if op[0] == "!fault" else op
        started = any(ev[0] == "tool_start" for ev in st.last_events)        # the start line reached the (first) output
        if inner[0] == "tool_on" and (exc is None or started):
            st.started_by = "spin"
        if inner[0] == "power_on" and (exc is None or started):
            st.started_by = "power"
        s, m, g = st.g.state, st.machine, st.g

        def bad(field, reported, derived):
            problems.append((f"mismatch-{field}", f"after {op}: state reports {field}={reported!r}, emitted program implies {derived!r} (lines {st.last_lines})"))

        if s.is_tool_active != m.tool_on:
            bad("is_tool_active", s.is_tool_active, m.tool_on)
        elif m.tool_on:
            code = SPIN.get(ev(s.spin_mode)) if st.started_by == "spin" else POWER.get(ev(s.power_mode))
            if code != m.tool_code:
                bad("tool_start_code", (ev(s.spin_mode), ev(s.power_mode), st.started_by), m.tool_code)
            if m.tool_power is not None and rf(s.tool_power) != rf(m.tool_power):
                bad("tool_power", s.tool_power, m.tool_power)
        if COOL.get(ev(s.coolant_mode), "?") != m.coolant:
            bad("coolant_mode", ev(s.coolant_mode), m.coolant)
        if s.is_coolant_active != (m.coolant is not None):
            bad("is_coolant_active", s.is_coolant_active, m.coolant)
        if (m.tool_number or 0) != s.tool_number:
            bad("tool_number", s.tool_number, m.tool_number)
        if rf(m.feed or 0) != rf(s.feed_rate):
            bad("feed_rate", s.feed_rate, m.feed)
        if s.distance_mode.is_relative != m.relative or g.distance_mode.is_relative != m.relative:
            bad("distance_mode", (ev(s.distance_mode), ev(g.distance_mode)), "relative" if m.relative else "absolute")
        if EXTR[ev(s.extrusion_mode)] != (m.extrusion or "M82"):
            bad("extrusion_mode", ev(s.extrusion_mode), m.extrusion)
        if FEEDM[ev(s.feed_mode)] != (m.feed_mode or "G94"):
            bad("feed_mode", ev(s.feed_mode), m.feed_mode)
        if UNITS[ev(s.length_units)] != (m.units or "G21"):
            bad("length_units", ev(s.length_units), m.units)
        if PLANE[ev(s.plane)] != (m.plane or "G17"):
            bad("plane", ev(s.plane), m.plane)
        for name, rep in (("hotend", s.target_hotend_temperature), ("bed", s.target_bed_temperature),
                          ("chamber", s.target_chamber_temperature)):
            want = m.temps[name]
            if (want is None and rep != NEG_INF) or (want is not None and rf(rep) != rf(want)):
                bad(f"target_{name}_temperature", rep, want)
        for k, v in m.params.items():
            if k in ("X", "Y", "Z") or v is None:
                continue
            for label, got in (("get_parameter", g.get_parameter(k)), ("state.get_parameter", s.get_parameter(k))):
                if got is None or rf(got) != rf(v):
                    bad(f"{label}[{k}]", got, v)
        return problems

    def canon(self, st):
        s, m = st.g.state, st.machine
        return (s.is_tool_active, ev(s.spin_mode), ev(s.power_mode), rf(s.tool_power), ev(s.coolant_mode), s.tool_number,
                rf(s.feed_rate), ev(s.distance_mode), ev(s.extrusion_mode), ev(s.feed_mode), ev(s.length_units), ev(s.plane),
                rf(s.target_hotend_temperature), rf(s.target_bed_temperature), rf(s.target_chamber_temperature),
                tuple(sorted((k, rf(v)) for k, v in m.params.items() if k not in ("X", "Y", "Z"))),
                tuple((k, rf(st.g.get_parameter(k))) for k in ("F", "S", "E", "P")),
                m.tool_on, m.tool_code, rf(m.tool_power), m.coolant, m.tool_number, rf(m.feed), m.relative, m.extrusion,
                m.feed_mode, m.units, m.plane, tuple(rf(m.temps[k]) for k in ("hotend", "bed", "chamber")), st.started_by)

    def outcome(self, st):
        return (tuple(st.last_lines), type(st.last_exc).__name__ if st.last_exc else None)


RULE = ("BFS over histories of the whole state-tracked builder API (about 95 ops, numeric grid {0, 1, 50, 1200.5}) on the real GCodeBuilder; "
        "after every call an independent modal interpreter over all emitted lines is compared with every reported field of GState "
        "(tool activity/start code/power, coolant, tool number, feed rate, distance/extrusion/feed modes, units, plane, three target "
        "temperatures) and with get_parameter on builder and state for every non-axis word seen on G0/G1/G38.x/G92 lines")
ASSUMPTIONS = ["not demanded: halt_mode, tool power after M05, the other API's stale mode field after a cross-API stop, axis words in get_parameter, words last seen on a G28 line",
               "S is tool power on stand-alone S lines, M03/M04 lines and G0/G1/G38.x lines; temperature on M104/M109/M140/M190/M141/M191; ignored on M106/G04",
               "position excluded from the canonical form (C01 owns it)"]


def systems(tier):
    grid = (0, 1, 50, 1200.5)
    return [("full-api", C07System(grid), 3 if tier == "quick" else 4, None),
            ("bounded-with-rejections-bystander", with_bystander(C07System(grid, bounded=True)), 3 if tier == "quick" else 4, None),
            ("with-move-hooks-debug-logging", replayed(with_debug_logging(C07System(grid, hooks=True))), 2 if tier == "quick" else 3, None)]


def run(tier, seed):
    return run_configs("model_checking", systems(tier), tier, seed, RULE, ASSUMPTIONS)


def replay(body):
    label = body["replay"].get("config", "full-api")
    for l, system, _, _ in systems("thorough"):
        if l == label:
            return replay_history(system, body)
    raise SystemExit(f"unknown config {label}")
