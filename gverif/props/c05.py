"""C05 - A rejected command has no effect (E1)."""

from ._base import BuilderSystem, run_configs, replay_history, with_debug_logging, with_bystander
from ..harness import pt, Recorder
from ..common import rf, import_gscrib

import_gscrib()
from gscrib.excepts import GscribError   # noqa: E402

NAN, INF = "nan", "inf"
PARAM_KEYS = ("X", "Y", "Z", "F", "S", "E", "P", "I")

SUFFIX = [
    ["move", [], {"x": 0.5}], ["set_distance_mode", ["relative"]], ["move", [], {"y": 0.25, "z": 0.125}],
    ["set_distance_mode", ["absolute"]], ["rapid", [], {"z": 0.5}], ["tool_off"], ["coolant_off"],
    ["tool_on", ["clockwise", 20]], ["move", [], {"x": 1}],
]


def snapshot(st):
    g = st.g
    s = g.state
    return {
        "position": pt(g.position), "state.position": pt(s.position),
        "distance_mode": str(g.distance_mode), "state.distance_mode": str(s.distance_mode),
        "feed_rate": rf(s.feed_rate), "tool_power": rf(s.tool_power),
        "is_tool_active": s.is_tool_active, "is_coolant_active": s.is_coolant_active,
        "spin_mode": str(s.spin_mode), "power_mode": str(s.power_mode), "coolant_mode": str(s.coolant_mode),
        "halt_mode": str(s.halt_mode), "tool_number": s.tool_number, "tool_swap_mode": str(s.tool_swap_mode),
        "params": tuple((k, rf(g.get_parameter(k))) for k in PARAM_KEYS),
        "state.params": tuple((k, rf(s.get_parameter(k))) for k in PARAM_KEYS),
        "hotend": rf(s.target_hotend_temperature), "bed": rf(s.target_bed_temperature),
        "chamber": rf(s.target_chamber_temperature),
        "length_units": str(s.length_units), "time_units": str(s.time_units),
        "temperature_units": str(s.temperature_units), "plane": str(s.plane),
        "extrusion_mode": str(s.extrusion_mode), "feed_mode": str(s.feed_mode),
        "resolution": rf(s.resolution), "direction": str(s.direction),
        "bounds": tuple(repr(s.get_bounds(n)) for n in ("axes", "feed-rate", "tool-power", "tool-number",
                                                          "bed-temperature", "hotend-temperature", "chamber-temperature")),
        "writes": st.rec.count, "bytes": st.rec.nbytes,
    }


def diff(a, b):
    return {k: (a[k], b[k]) for k in a if a[k] != b[k]}


class FlagHook:
    """Move hook that supplies a word when the call carries a flag word (deep-copyable, no closure state)."""

    def __init__(self, flag, key, value, fresh):
        self.flag, self.key, self.value, self.fresh = flag, key, value, fresh

    def __call__(self, origin, target, params, state):
        if params.get(self.flag) is None:
            return params
        out = type(params)(params) if self.fresh else params
        out[self.key] = self.value
        return out


class C05System(BuilderSystem):
    deep = True

    def __init__(self, label, bounded, hooks=False, box=((0, 0, -1), (4, 4, 1))):
        self.label = label
        self.bounded = bounded
        self.hooks = hooks
        self.box = box
        self.cfg = {}

    def setup(self, st):
        if self.bounded:
            g = st.g
            g.set_bounds("axes", *self.box)
            # distinct ranges: a value can violate exactly one of them
            g.set_bounds("feed-rate", 10, 100)
            g.set_bounds("tool-power", 0, 60)
            g.set_bounds("tool-number", 1, 4)
            g.set_bounds("bed-temperature", 0, 100)
            g.set_bounds("hotend-temperature", 0, 250)
            g.set_bounds("chamber-temperature", 0, 70)
        if self.hooks:
            # words supplied by hooks are validated like the caller's own: a rejected move must still have no effect
            st.g.add_hook(FlagHook("P", "F", 5, fresh=True))        # below the feed-rate minimum
            st.g.add_hook(FlagHook("Q", "S", 80, fresh=False))      # above the tool-power maximum
            st.g.add_hook(FlagHook("I", "E", float("nan"), fresh=True))

    def build_ops(self):
        return [
            ["set_axis", [], {"x": 1, "y": 1, "z": 0}], ["move", [], {"x": 2, "y": 1, "F": 50}],
            ["set_distance_mode", ["relative"]], ["tool_on", ["clockwise", 50]], ["coolant_on", ["flood"]],
            ["set_feed_rate", [60]], ["set_hotend_temperature", [50]], ["move", [], {"x": 1, "E": 1.5, "S": 30}],
            ["tool_change", ["manual", 2]], ["power_on", ["dynamic", 10]],
            # modes under which other rules may apply to the same words
            ["set_feed_mode", ["1/time"]], ["set_feed_mode", ["units/rev"]], ["set_length_units", ["in"]], ["set_extrusion_mode", ["relative"]],
        ] + ([
            # bounds tightened on a live builder: values that were legal (and may be the tracked ones) now fail
            ["set_bounds", ["feed-rate", 55, 58]], ["set_bounds", ["tool-power", 35, 40]], ["set_bounds", ["axes", [0, 0, -1], [1.5, 1.5, 1]]],
            # open-ended limits (a lower limit only)
            ["set_bounds", ["feed-rate", 10, INF]], ["set_bounds", ["tool-power", 0, INF]],
        ] if self.bounded else [])

    def failing_ops(self):
        ops = []
        big = 5000
        for kind in ("move", "rapid", "move_absolute", "rapid_absolute", "set_axis"):
            for kw in ({"x": 99, "F": 50}, {"z": -7}, {"x": 1, "F": big}, {"x": 1, "S": big}, {"y": 1, "F": 50, "S": big},
                       {"x": NAN, "F": 50}, {"y": INF, "F": 50}, {"x": 1, "F": NAN}, {"x": 1, "F": 50, "E": NAN},
                       {"x": 1, "S": -1}, {"x": 1, "F": -1},
                       # zero-valued words (legal by default; if a mode or a bound refuses them, the refusal must be clean)
                       {"x": 1, "F": 0}, {"y": 1, "S": 0}, {"x": 1, "F": 0.0, "S": 0, "E": 0},
                       # out of range for one quantity but inside the range of the other one
                       {"x": 1, "F": 50, "S": 80}, {"y": 1, "S": 80}, {"x": 1, "F": 5}, {"x": 1, "F": 5, "S": 30}):
                ops.append([kind, [], kw])
        for kw in ({"z": -7, "F": 50}, {"z": 0, "F": big}, {"z": NAN, "F": 50}, {"x": 1, "z": 0, "S": big},
                   {"z": 0, "F": 50, "S": 80}, {"z": 0, "F": 5}):
            ops.append(["probe", ["towards"], kw])
        ops.append(["probe", ["bogus"], {"z": 0}])
        ops += [["coolant_on", ["mist"]], ["coolant_on", ["flood"]], ["tool_on", ["ccw", 40]], ["power_on", ["constant", 40]]]     # refused while running
        ops.append(["auto_home", [], {"x": NAN}])
        for name in ("set_feed_rate", "set_tool_power"):
            for v in (-1, big, NAN, INF):
                ops.append([name, [v]])
        for name, mode in (("tool_on", "counter"), ("power_on", "constant")):
            for v in (-1, big, NAN, INF):
                ops.append([name, [mode, v]])
            ops.append([name, ["off", 10]])
            ops.append([name, ["bogus", 10]])
        ops += [["tool_change", ["manual", 0]], ["tool_change", ["manual", 99]], ["tool_change", ["bogus", 1]],
                ["tool_change", ["off", 1]], ["tool_change", ["automatic", 3]],
                ["coolant_on", ["bogus"]], ["coolant_on", ["off"]], ["coolant_on", ["mist"]],
                ["halt", ["wait-for-bed"], {"S": big}], ["halt", ["wait-for-hotend"], {"R": big}],
                ["halt", ["wait-for-chamber"], {"s": big}], ["halt", ["wait-for-bed"], {"S": NAN}],
                ["halt", ["bogus"]], ["halt", ["off"]], ["pause"], ["stop", [True]], ["wait"],
                ["set_bed_temperature", [big]], ["set_hotend_temperature", [big]], ["set_chamber_temperature", [big]],
                ["set_bed_temperature", [150]], ["set_chamber_temperature", [90]], ["halt", ["wait-for-bed"], {"S": 150}],
                ["halt", ["wait-for-chamber"], {"R": 90}], ["set_tool_power", [80]], ["tool_on", ["clockwise", 80]],
                ["power_on", ["dynamic", 80]], ["set_feed_rate", [5]],
                ["set_bed_temperature", [NAN]], ["set_hotend_temperature", [NAN]], ["set_chamber_temperature", [NAN]],
                ["set_bed_temperature", [INF]], ["set_hotend_temperature", [INF]], ["set_chamber_temperature", [INF]],
                ["set_hotend_temperature", [260]],
                # calls that leave axes unknown: legal under any box (unknown coordinates are not out of bounds)
                ["auto_home", [], {}], ["auto_home", [], {"x": 0}], ["probe", ["towards"], {"z": 1}], ["set_axis", [], {"x": 2}],
                ["set_axis", [], {"z": 1}],
                ["sleep", [-1]], ["sleep", [NAN]], ["set_fan_speed", [300]], ["set_fan_speed", [10, -1]], ["set_fan_speed", [NAN]],
                ["set_distance_mode", ["bogus"]], ["set_extrusion_mode", ["bogus"]], ["set_feed_mode", ["bogus"]],
                ["set_length_units", ["bogus"]], ["set_plane", ["bogus"]], ["set_direction", ["bogus"]],
                ["set_time_units", ["bogus"]], ["set_temperature_units", ["bogus"]],
                ["set_resolution", [0.0]], ["set_resolution", [-1.0]], ["query", ["bogus"]],
                ["set_bounds", ["bogus", 0, 1]], ["set_bounds", ["feed-rate", 5, 1]],
                ["annotate", ["not an identifier", "v"]]]
        return ops

    def ops(self, st):
        extra = []
        if self.hooks:
            for kind in ("move", "move_absolute"):
                extra += [[kind, [], {"x": 1, "P": 1}], [kind, [], {"y": 1, "F": 50, "Q": 1}], [kind, [], {"x": 1, "I": 1, "F": 50}],
                          [kind, [[1.5, 1.5, 0.5]], {"Q": 2, "P": 2}]]
            extra += [["trace.polyline", [[[1, 1], [2, 1]]], {"Q": 1}]]
            return self.build_ops() + extra + self.failing_ops()[::4]
        return self.build_ops() + self.failing_ops()

    def step(self, st, op):
        problems = []
        before = snapshot(st)
        twin = st.snapshot() if st.copyable else None
        exc, chunks = self.apply(st, op)
        st.last_lines = [c.decode("utf-8", "replace").rstrip("\r\n") for c in chunks]
        if exc is None:
            return problems
        if not isinstance(exc, (ValueError, GscribError)):
            # TypeCheckError etc.: wrong python types are outside the statement; a crash of another
            # kind is not a *validation* failure either, but still must not be silently ignored
            problems.append(("unexpected-exception-kind", f"{op} raised {exc!r}"))
            return problems
        if op[0].startswith("trace.") and chunks:
            # an interpolated path is a sequence of moves, not a single command: when a *later* segment is refused the earlier ones
            # have been written and tracked, which the statement (single-command calls) does not forbid. Paths refused at their
            # first segment (nothing written) are judged like every other call.
            return problems
        after = snapshot(st)
        d = diff(before, after)
        if chunks:
            from ..oracles import lex
            from ..oracles.machine import norm_code
            codes = "+".join(norm_code(l, n) for line in st.last_lines for l, n in lex.executable_words(line) if l in ("G", "M"))
            problems.append((f"emitted-by-rejected-{op[0]}:{codes}", f"{op} raised {exc!r} but emitted {st.last_lines}"))
        d.pop("writes", None); d.pop("bytes", None)
        if d:
            fields = "+".join(sorted(d))
            problems.append((f"state-changed-by-rejected-{op[0]}:{fields}", f"{op} raised {exc!r} but changed {d}"))
        if not problems and twin is not None:
            # differential continuation: later calls behave as if the rejected call had never been made
            for sop in SUFFIX:
                e1, c1 = st.call(sop)
                e2, c2 = twin.call(sop)
                if type(e1) is not type(e2) or c1 != c2:
                    problems.append((f"later-call-differs-after-rejected-{op[0]}",
                                     f"after rejected {op}: {sop} gives {e1!r}/{c1} vs {e2!r}/{c2} on a twin that never saw the call"))
                    break
            else:
                s1, s2 = snapshot(st), snapshot(twin)
                if s1 != s2:
                    problems.append((f"later-state-differs-after-rejected-{op[0]}", f"after rejected {op} + suffix: {diff(s1, s2)}"))
            # the suffix ran on scratch objects only: restore the state the search continues from
            st.restore_from(twin)
            st.last_exc, st.last_rejected = exc, True
        return problems

    def canon(self, st):
        s = snapshot(st)
        s.pop("writes"); s.pop("bytes")
        return tuple(sorted(s.items()))

    def outcome(self, st):
        return (type(st.last_exc).__name__ if st.last_exc else None, tuple(st.last_lines))


RULE = ("BFS over a state-building alphabet (axis reset, moves with F/S/E words, relative mode, tool on via both APIs, coolant, "
        "temperatures, tool change) interleaved, from every reached state, with ~120 calls built to fail at the first, middle or "
        "last validation step of each command (out-of-box targets with valid F, valid target with out-of-range F or S, nan/inf "
        "coordinates or words, negative/out-of-range/non-finite scalar setters, bad enums, interlock rejections); for every call "
        "that raises ValueError/GscribError: nothing emitted, public snapshot unchanged, and a fixed 9-call suffix behaves identically "
        "on a twin that never saw the call; distinct = distinct public snapshots")
ASSUMPTIONS = ["multi-statement calls (tracer shapes, emergency_halt) and wrong Python types (TypeCheckError) are outside the statement",
               "two configurations: all seven bounds set / no bounds"]


def systems(tier):
    d = 2 if tier == "quick" else 3
    return [("bounded", C05System("bounded", True), d, None), ("unbounded-debug-logging", with_debug_logging(C05System("unbounded-debug-logging", False)), d, None),
            ("bounded-hooks-bystander", with_bystander(C05System("bounded-hooks-bystander", True, hooks=True)), d, None),
            ("bounded-box-excludes-zero", C05System("bounded-box-excludes-zero", True, box=((1, 1, 0.5), (4, 4, 1))), d, None)]


def run(tier, seed):
    return run_configs("model_checking", systems(tier), tier, seed, RULE, ASSUMPTIONS, snapshot_check=False)


def replay(body):
    label = body["replay"]["config"]
    for l, system, _, _ in systems("thorough"):
        if l == label:
            return replay_history(system, body)
    raise SystemExit(f"unknown config {label}")
