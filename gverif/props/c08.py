"""C08 - Every emitted line is one well-formed block with faithful numbers (E3)."""

import math
import os
from fractions import Fraction

import numpy as np

from ..common import Result, Violation, pmap, digest
from ..harness import Sut, poke_formatter
from ..oracles import lex

# ---- carriers: (name, label letter or None, domain, call) ------------------
# domain: 'any' finite value accepted, 'nonneg' (negative is a legitimate ValueError), 'fan' (0..255)


def _tool_on(g, v): g.tool_on("clockwise", v)
def _power_on(g, v): g.power_on("dynamic", v)


CARRIERS = [
    ("move-x", "X", "any", lambda g, v: g.move(x=v)),
    ("move-yz", "Y", "any", lambda g, v: g.move(y=v, z=1)),
    ("move-point", "Z", "any", lambda g, v: g.move((1, None, v))),
    ("move-comment", "X", "any", lambda g, v: g.move(x=v, comment="note")),
    ("rapid-z", "Z", "any", lambda g, v: g.rapid(z=v)),
    ("move_absolute-x", "X", "any", lambda g, v: g.move_absolute(x=v)),
    ("rapid_absolute-y", "Y", "any", lambda g, v: g.rapid_absolute(y=v)),
    ("move-F", "F", "nonneg", lambda g, v: g.move(x=1, F=v)),
    ("move-S", "S", "nonneg", lambda g, v: g.move(x=1, S=v)),
    ("move-E", "E", "any", lambda g, v: g.move(x=1, E=v)),
    ("move-custom", "Q", "any", lambda g, v: g.rapid(x=1, q=v)),
    ("set_axis-x", "X", "any", lambda g, v: g.set_axis(x=v)),
    ("set_axis-E", "E", "any", lambda g, v: g.set_axis(E=v)),
    ("auto_home-x", "X", "any", lambda g, v: g.auto_home(x=v)),
    ("probe-z", "Z", "any", lambda g, v: g.probe("towards", z=v)),
    ("probe-F", "F", "nonneg", lambda g, v: g.probe("away", z=1, F=v)),
    ("set_feed_rate", "F", "nonneg", lambda g, v: g.set_feed_rate(v)),
    ("set_tool_power", "S", "nonneg", lambda g, v: g.set_tool_power(v)),
    ("tool_on", "S", "nonneg", _tool_on),
    ("power_on", "S", "nonneg", _power_on),
    ("set_bed_temperature", "S", "any", lambda g, v: g.set_bed_temperature(v)),
    ("set_hotend_temperature", "S", "any", lambda g, v: g.set_hotend_temperature(v)),
    ("set_chamber_temperature", "S", "any", lambda g, v: g.set_chamber_temperature(v)),
    ("halt-bed-S", "S", "any", lambda g, v: g.halt("wait-for-bed", S=v)),
    ("halt-hotend-R", "R", "any", lambda g, v: g.halt("wait-for-hotend", R=v)),
    ("sleep", "P", "nonneg", lambda g, v: g.sleep(v)),
    ("set_fan_speed", "S", "fan", lambda g, v: g.set_fan_speed(v)),
    ("polyline", "X", "any", lambda g, v: g.trace.polyline([(v, 1.0)])),
    ("relative-move", "X", "any", lambda g, v: (g.set_distance_mode("relative"), g.move(x=v))),
]

PLAIN = [
    ("comment", lambda g: g.comment("hello world")), ("comment-empty", lambda g: g.comment("")),
    ("annotate", lambda g: g.annotate("key", "3.175 mm")), ("set_distance_mode", lambda g: g.set_distance_mode("relative")),
    ("set_length_units", lambda g: g.set_length_units("in")), ("set_plane", lambda g: g.set_plane("yz")),
    ("set_extrusion_mode", lambda g: g.set_extrusion_mode("relative")), ("set_feed_mode", lambda g: g.set_feed_mode("1/time")),
    ("tool_off", lambda g: g.tool_off()), ("coolant_on", lambda g: g.coolant_on("mist")), ("coolant_off", lambda g: g.coolant_off()),
    ("tool_change", lambda g: g.tool_change("manual", 7)), ("tool_change-big", lambda g: g.tool_change("automatic", 123)),
    ("tool_change-5", lambda g: g.tool_change("manual", 31415)), ("tool_change-6", lambda g: g.tool_change("manual", 100000)),
    ("query", lambda g: g.query("position")), ("pause", lambda g: g.pause()), ("stop", lambda g: g.stop(True)), ("wait", lambda g: g.wait()),
    ("emergency_halt", lambda g: g.emergency_halt("jam")), ("auto_home", lambda g: g.auto_home()), ("set_axis-none", lambda g: g.set_axis()),
    ("move-none", lambda g: g.move(F=100)), ("arc", lambda g: (g.set_resolution(1.0), g.trace.arc((2, 2), (2, 0)))),
    ("move_absolute-relative", lambda g: (g.set_distance_mode("relative"), g.move_absolute(x=1.5, y=2))),
    ("write-raw", lambda g: g.write("G4 P1   ")),
    # comment text made of delimiters and their fragments: still exactly one comment, after the words (C09 owns what executes)
    ("comment-delimiters", lambda g: g.comment("a ) ] } > */ **// ( [ /* b")),
    ("move-comment-delimiters", lambda g: g.move(x=1.5, comment="x ) ] */ **// ))(( y")),
    ("annotate-delimiters", lambda g: g.annotate("key", "*/ ) ] **//")),
    ("halt-comment", lambda g: g.emergency_halt("stop ) */ now")),
    # a caller's comment on table-driven commands replaces the built-in description: still at most one comment
    ("set_axis-comment", lambda g: g.set_axis(x=0, y=0, comment="part zero is here")),
    ("auto_home-comment", lambda g: g.auto_home(comment="go home")),
    ("auto_home-x-comment", lambda g: g.auto_home(x=0, comment="home x")),
    ("probe-comment", lambda g: g.probe("towards", z=-1.5, comment="touch off")),
    # extra positional values of comment() belong to the comment as well
    ("comment-values", lambda g: g.comment("Position X:", 10.5, "Y:", 20)),
    ("comment-values-linebreak", lambda g: g.comment("note", "first\nG1 X99", 7)),
    # raw statements that still carry their own line break / blanks (start-up snippets forwarded line by line from a file)
    ("write-raw-lf", lambda g: g.write("G90\n")), ("write-raw-crlf", lambda g: g.write("G21 \r\n")), ("write-raw-cr", lambda g: g.write("M400\r")),
    ("write-raw-tabs", lambda g: g.write("G4 P1 \t \n\n")),
    ("move-comment-empty", lambda g: g.move(x=1.5, comment="")),
    ("auto_home-comment-empty", lambda g: g.auto_home(comment="")),
    ("set_axis-comment-empty", lambda g: g.set_axis(x=0, comment="")),
    ("rapid-comment", lambda g: g.rapid(x=1.5, comment="reposition")),
    ("move_absolute-comment", lambda g: g.move_absolute(x=1.5, comment="fixed point")),
    # line-break characters inside the text: every emitted line still ends exactly once, with the configured ending
    ("comment-linebreaks", lambda g: g.comment("a\rb\nc\r\nd\x0be\x0cf\x85g\u2028h")),
    ("move-comment-cr", lambda g: g.move(x=1.5, comment="x\ry")),
    ("move-comment-crlf", lambda g: g.move(x=1.5, comment="x\r\ny\r")),
    ("annotate-cr", lambda g: g.annotate("key", "v\rw")),
    ("halt-comment-cr", lambda g: g.emergency_halt("stop\rnow")),
]


def numbers(tier):
    vals = [0, 0.0, -0.0, 1, -1, 3, -4, 1.5, -2.25, 0.1, 1 / 3, 2.675, 999999.9999995, 5e-324, 2.2250738585072014e-308,
            1e-13, -1e-13, 1e-7, 1e15, -1e15, 123456789012345.67, 0.30000000000000004, 100.0, 255, 254.99999999,
            np.float64(2.5), np.float64(-0.125), np.float32(0.1), np.float32(1e-7), np.int64(7), np.int32(-3), True]
    for k in range(0, 13):
        vals += [0.5 * 10 ** -k, 2.5 * 10 ** -k, 1.5 * 10 ** -k, -(0.5 * 10 ** -k)]
        # just below / above half a unit and just below one unit of each decimal place (zero-shortcut thresholds)
        vals += [0.7 * 10 ** -k, -0.8 * 10 ** -k, 0.999 * 10 ** -k, 0.51 * 10 ** -k, 0.49 * 10 ** -k]
    if tier == "thorough":
        for k in range(0, 13):
            vals += [1 + 0.5 * 10 ** -k, 0.4999999999999999 * 10 ** -k, 0.5000000000000001 * 10 ** -k, 12345.5 * 10 ** -k]
        vals += [math.pi, -math.e, 4503599627370496.5, 0.1 + 0.2, 1e14 + 0.5, 8.5, 9.5, 0.045, 0.055, 1e-5, 1.00001e-5, 0.999995]
    return vals


NONFINITE = [float("nan"), float("inf"), float("-inf"), np.float64("nan"), np.float32("nan"), np.float32("inf")]


def ulp(v):
    if isinstance(v, np.floating):
        return float(np.spacing(np.abs(v)))
    try:
        return math.ulp(float(v))
    except (OverflowError, ValueError):
        return 0.0


def check_output(raw, cfg, problems):
    """Well-formedness of everything emitted; returns list of (words, comment) per line."""
    ending = os.linesep if cfg["line_endings"] == "os" else cfg["line_endings"].encode().decode("unicode-escape")
    blocks, ok = lex.split_configured(raw, ending)
    parsed = []
    if not ok:
        problems.append(("not-terminated", f"output {raw!r} does not end with the configured ending {ending!r}"))
    for b in blocks:
        if "\n" in b or "\r" in b:
            problems.append(("terminator-inside-line", f"line {b!r} contains a line break (ending {ending!r})"))
            continue
        if b != b.rstrip():
            problems.append(("trailing-whitespace", f"line {b!r}"))
        try:
            parsed.append(lex.parse_block(b, cfg["comment_symbols"]))
        except lex.LexError as e:
            problems.append(("malformed-block", f"line {b!r}: {e}"))
    return parsed


def reconfigure(g, cfg):
    """Bring a live builder to formatter configuration `cfg` through the public API."""
    if cfg.get("_via_set_formatter"):
        from gscrib.formatters import DefaultFormatter
        g.set_formatter(DefaultFormatter())
    g.format.set_decimal_places(cfg["decimal_places"])
    g.format.set_comment_symbols(cfg["comment_symbols"])
    g.format.set_line_endings(cfg["line_endings"])
    g.rename_axis("x", cfg.get("x_axis", "X"))
    poke_formatter(g.format)


def run_one(cfg, call, v=None, pre=None):
    """`pre` = (earlier configuration, warm-up value): the builder is created with the earlier configuration, the same
    command is issued once, and only then is the builder re-configured at run time to `cfg` (non-initial formatter state)."""
    if pre is None:
        st = Sut({k: v for k, v in cfg.items() if not k.startswith("_")})
    else:
        st = Sut(dict(pre[0]))
        try:
            call(st.g, pre[1]) if pre[1] is not None or call.__code__.co_argcount == 2 else call(st.g)
        except Exception:   # noqa: BLE001 - the warm-up may legitimately be rejected
            pass
        st.rec.take()
        if st.g.distance_mode.is_relative:
            st.g.set_distance_mode("absolute")
        reconfigure(st.g, cfg)
        st.rec.take()
    try:
        call(st.g, v) if v is not None or call.__code__.co_argcount == 2 else call(st.g)
        exc = None
    except Exception as e:    # noqa: BLE001
        exc = e
    return exc, b"".join(st.rec.take()).decode("utf-8")


def check_value(cfg, name, letter, domain, call, v, finite=True, pre=None):
    problems = []
    exc, raw = run_one(cfg, call, v, pre=pre)
    dp = cfg["decimal_places"]
    label = cfg.get("x_axis", "X").strip().upper() if letter == "X" else letter
    typed_np = isinstance(v, np.generic) and not isinstance(v, (float, int))
    if not finite:
        if exc is None:
            problems.append((f"non-finite-written:{name}", f"{name}({v!r}) did not raise; emitted {raw!r}"))
        elif not isinstance(exc, ValueError) and not (typed_np and type(exc).__name__ == "TypeCheckError"):
            problems.append((f"non-finite-wrong-exception:{name}", f"{name}({v!r}) raised {exc!r}"))
        # a temporary G90/G91 pair around a rejected bypass move is C05's business; only numbers matter here
        if any(t in raw.lower() for t in ("nan", "inf")):
            problems.append((f"non-finite-written:{name}", f"{name}({v!r}) emitted {raw!r}"))
        return problems, raw, exc
    if exc is not None:
        legit = isinstance(exc, ValueError) or type(exc).__name__ == "TypeCheckError"
        if not legit:
            problems.append((f"crash:{name}", f"{name}({v!r}) raised {exc!r}"))
        return problems, raw, exc
    parsed = check_output(raw, cfg, problems)
    # the requested number must appear, faithfully, on exactly one line
    hits = [(w, n) for words, _ in parsed for (w, n) in words if w == label]
    if name == "relative-move":
        pass
    if not hits:
        problems.append((f"word-missing:{name}", f"{name}({v!r}) emitted {raw!r}: no {label} word"))
    else:
        want = Fraction(float(v)) if not isinstance(v, (bool,)) else Fraction(int(v))
        budget = Fraction(1, 2) * Fraction(1, 10 ** dp) + Fraction(2 * ulp(v))
        got = Fraction(hits[-1][1])
        if abs(got - want) > budget:
            problems.append((f"unfaithful-number:{name}", f"{name}({v!r}) at {dp} decimals emitted {label}{hits[-1][1]} (|error| = {float(abs(got - want)):.3g} > {float(budget):.3g})"))
        frac_digits = len(hits[-1][1].split(".")[1]) if "." in hits[-1][1] else 0
        if frac_digits > dp:
            problems.append((f"too-many-decimals:{name}", f"{name}({v!r}) at {dp} decimals emitted {label}{hits[-1][1]}"))
    return problems, raw, exc


def _work(item):
    cfg, vals, nonfinite, plain = item
    out, n, outcomes = [], 0, set()
    for name, letter, domain, call in CARRIERS:
        for v in vals:
            if domain == "fan" and not (0 <= v <= 255):
                continue
            problems, raw, exc = check_value(cfg, name, letter, domain, call, v)
            n += 1
            outcomes.add(digest((name, raw)))
            for sig, msg in problems:
                out.append((sig, msg, {"cfg": cfg, "carrier": name, "value": repr(v), "vtype": type(v).__name__}))
        for v in nonfinite:
            problems, raw, exc = check_value(cfg, name, letter, domain, call, v, finite=False)
            n += 1
            for sig, msg in problems:
                out.append((sig, msg, {"cfg": cfg, "carrier": name, "value": repr(v), "vtype": type(v).__name__}))
    # the same command once more, with an ordinary value, after it was refused for a non-finite one on the same builder
    for name, letter, domain, call in CARRIERS:
        if name not in REPEATABLE:
            continue
        for bad in nonfinite[:3]:
            for v in (1.5, 40):
                problems, raw, exc = check_value(cfg, name, letter, domain, call, v, pre=(cfg, bad))
                n += 1
                for sig, msg in problems:
                    out.append((sig + ":after-refused-non-finite", msg + f" (after {name}({bad!r}) was refused)", {"cfg": cfg, "carrier": name, "value": repr(v), "vtype": type(v).__name__, "pre_cfg": cfg, "warm": repr(bad)}))
    if plain:
        for name, call in PLAIN:
            problems = []
            exc, raw = run_one(cfg, lambda g, v=None, call=call: call(g), None)
            n += 1
            outcomes.add(digest((name, raw)))
            if exc is not None:
                problems.append((f"crash:{name}", f"{name} raised {exc!r}"))
            check_output(raw, cfg, problems)
            for sig, msg in problems:
                out.append((f"{sig}:{name}" if ":" not in sig else sig, msg, {"cfg": cfg, "plain": name}))
    return n, out, outcomes


REPEATABLE = ("move-x", "move-F", "move-E", "move-custom", "set_feed_rate", "set_tool_power", "set_axis-E", "set_bed_temperature",
              "sleep", "rapid-z", "probe-z", "polyline")
RECONF_VALUES = [0.123456789, 2.675, 1 / 3, 1e-7, 120, 0.7, 0.0007, 12345.678901234, 5, 0.5, 255]


def reconf_pairs(tier):
    """Ordered pairs (earlier configuration, later configuration) differing in one or more formatter settings."""
    dps = [0, 3, 5, 8, 12] if tier == "thorough" else [0, 3, 8]
    base = {"comment_symbols": ";", "line_endings": "os"}
    pairs = []
    for a in dps:
        for b in dps:
            if a != b:
                pairs.append(({**base, "decimal_places": a}, {**base, "decimal_places": b}))
    styles = [";", "(", "#"]
    for a in styles:
        for b in styles:
            if a != b:
                pairs.append(({"decimal_places": 5, "comment_symbols": a, "line_endings": "os"}, {"decimal_places": 5, "comment_symbols": b, "line_endings": "os"}))
    pairs.append(({**base, "decimal_places": 4}, {"decimal_places": 4, "comment_symbols": ";", "line_endings": "\\r\\n"}))
    pairs.append(({"decimal_places": 4, "comment_symbols": ";", "line_endings": "\\r\\n"}, {**base, "decimal_places": 4}))
    pairs.append(({**base, "decimal_places": 4}, {**base, "decimal_places": 4, "x_axis": "A"}))
    pairs.append(({**base, "decimal_places": 4, "x_axis": "A"}, {**base, "decimal_places": 6, "x_axis": "U"}))
    # the formatter object itself is replaced on the live builder (set_formatter), then configured
    pairs.append(({**base, "decimal_places": 4}, {"decimal_places": 4, "comment_symbols": ";", "line_endings": "\\r\\n", "_via_set_formatter": True}))
    pairs.append(({"decimal_places": 4, "comment_symbols": ";", "line_endings": "\\r\\n"}, {**base, "decimal_places": 2, "comment_symbols": "(", "_via_set_formatter": True}))
    return pairs


def _work_reconf(item):
    c1, c2 = item
    out, n, outcomes = [], 0, set()
    for name, letter, domain, call in CARRIERS:
        if name not in REPEATABLE:
            continue
        for v in RECONF_VALUES:
            for warm in (v, 9.87654321):
                problems, raw, exc = check_value(c2, name, letter, domain, call, v, pre=(c1, warm))
                n += 1
                outcomes.add(digest((name, raw)))
                for sig, msg in problems:
                    out.append((sig + ":after-reconfiguration", msg + f" (builder created with {c1}, same command issued with {warm!r}, then re-configured to {c2})",
                                {"cfg": c2, "pre_cfg": c1, "warm": repr(warm), "carrier": name, "value": repr(v), "vtype": type(v).__name__}))
    return n, out, outcomes


def configs(tier):
    dps = list(range(0, 13))
    styles = [";", "(", "#"]
    endings = ["os", "\\n", "\\r\\n"]
    labels = [{}, {"x_axis": "A"}]
    out = []
    if tier == "thorough":
        for s in ("/*", "[", '"', "'", "<", "//"):
            for dp in (0, 5):
                out.append({"decimal_places": dp, "comment_symbols": s, "line_endings": "os"})
        for dp in dps:
            for s in styles:
                for e in endings:
                    for lab in labels:
                        out.append({"decimal_places": dp, "comment_symbols": s, "line_endings": e, **lab})
    else:
        for dp in dps:
            out.append({"decimal_places": dp, "comment_symbols": ";", "line_endings": "os"})
        for s in styles[1:] + ["/*", "[", '"']:
            out.append({"decimal_places": 5, "comment_symbols": s, "line_endings": "os"})
        for e in endings[1:]:
            out.append({"decimal_places": 3, "comment_symbols": ";", "line_endings": e})
        out.append({"decimal_places": 5, "comment_symbols": "(", "line_endings": "\\r\\n", "x_axis": "A"})
    # an axis label given with surrounding blanks (the setter trims it)
    out.append({"decimal_places": 4, "comment_symbols": ";", "line_endings": "os", "x_axis": " u "})
    return out


def run(tier, seed):
    res = Result("exploration")
    vals = numbers(tier)
    items = [(cfg, vals, NONFINITE, True) for cfg in configs(tier)]
    results = pmap(_work, items, chunksize=1)
    pairs = reconf_pairs(tier)
    results = list(results) + list(pmap(_work_reconf, pairs, chunksize=1))
    total, outcomes = 0, set()
    for n, out, oc in results:
        total += n
        outcomes |= oc
        for sig, msg, rp in out:
            res.add(Violation(sig, msg, rp))
    res.coverage = {
        "evaluations": total,
        "distinct_nontrivial": len(outcomes),
        "rule": (f"{len(CARRIERS)} numeric carriers (every code path that formats a number, incl. tool_on/power_on/set_feed_rate which bypass format.command) x "
                 f"{len(vals)} numbers (+-0, ints, bool, numpy scalars, rounding ties at every precision, subnormals, 1e-7, +-1e15, ...) + {len(NONFINITE)} non-finite values "
                 f"+ {len(PLAIN)} non-numeric emitting commands, per formatter configuration ({len(items)} configurations of decimal_places 0..12 x comment style x "
                 "line ending x axis relabelling" + (" - full product)" if tier == "thorough" else " - each dimension varied, not the full product)") +
                 f"; each call on a fresh real GCodeBuilder; plus {len(pairs)} run-time reconfiguration pairs (decimal places, comment style, line ending, axis label changed through the "
                 "public API on a live builder after the same command was already issued) x repeatable carriers x values; output tokenised by an independent strict block grammar; distinct = distinct (carrier, raw output)"),
        "exhaustive": True,
        "exhaustive_note": "complete enumeration of the stated finite product; numbers outside the list are not covered",
        "configurations": len(items), "numbers": len(vals),
        "samples": [{"cfg": items[0][0], "carrier": "move-x", "value": "2.675"}, {"cfg": items[-1][0], "carrier": "tool_on", "value": "5e-324"}],
    }
    res.assumptions = ["|word - requested| <= 0.5*10^-dp + 2 ulp(requested); a finite value may be rejected with ValueError by argument validation (negative feed, ...)",
                       "numpy scalars on type-annotated parameters may be rejected by the type checker; text payloads are C09's"]
    return res


def replay(body):
    rp = body["replay"]
    cfg = rp["cfg"]
    if "plain" in rp:
        call = dict(PLAIN)[rp["plain"]]
        exc, raw = run_one(cfg, lambda g, v=None: call(g), None)
        problems = []
        check_output(raw, cfg, problems)
        return {"output": raw, "exception": repr(exc), "violations": problems}
    name = rp["carrier"]
    car = next(c for c in CARRIERS if c[0] == name)
    ns = {"nan": float("nan"), "inf": float("inf"), "np": np, "True": True}
    v = eval(rp["value"], {"np": np, "nan": float("nan"), "inf": float("inf")})   # repr of a number produced by this module
    if rp["vtype"] != type(v).__name__:
        v = getattr(np, rp["vtype"])(v)
    finite = bool(np.isfinite(float(v)))
    pre = None
    if "pre_cfg" in rp:
        pre = (rp["pre_cfg"], eval(rp["warm"], {"np": np, "nan": float("nan"), "inf": float("inf")}))
    problems, raw, exc = check_value(cfg, car[0], car[1], car[2], car[3], v, finite=finite, pre=pre)
    return {"output": raw, "exception": repr(exc), "violations": problems}
