"""C01 - Emitted program reproduces the tracked position (E1)."""

import numpy as np

from ._base import BuilderSystem, run_configs, replay_history, with_bystander, replayed
from ..harness import pt
from ..common import rf, import_gscrib

import_gscrib()
from gscrib import GCodeCore   # noqa: E402

AX = ("x", "y", "z")


class C01System(BuilderSystem):
    deep = True

    def __init__(self, label, dp, values, tracers=True, cls=None, contexts=True, relabel=None, bounded=False):
        self.label = label
        self.bounded = bounded
        self.cfg = {"decimal_places": dp}
        if relabel:
            # custom axis labels: the interpreter is told which emitted label drives which axis
            self.cfg.update({f"{a.lower()}_axis": lab for a, lab in relabel.items()})
            self.labels = {lab.upper(): a for a, lab in relabel.items()}
            for a in ("X", "Y", "Z"):
                if a not in relabel:
                    self.labels[a] = a
        self.dp = dp
        self.values = values
        self.tracers = tracers and cls is None
        self.cls = cls
        self.contexts = contexts
        self.is_core = cls is not None

    def setup(self, st):
        if not self.is_core:
            st.g.set_resolution(1.0)
        if getattr(self, "hooked", False):
            st.g.add_hook(passive_hook)        # hooks see every move; this one hands the parameters back unchanged
        if getattr(self, "prefix", None):
            # a non-initial start: the search begins behind a short fixed history (saves its depth)
            from ..oracles import lex
            for op in self.prefix:
                _, chunks = st.call(op)
                for c in chunks:
                    st.machine.feed_words([w for w in lex.executable_words(c.decode().rstrip("\r\n")) if w[0] != "?"])
        if self.bounded:
            # calls that are rejected become part of the history: tracked and emitted position must still agree afterwards
            st.g.set_bounds("axes", (-3, -3, -3), (3, 3, 3))
            st.g.set_bounds("feed-rate", 0, 1000)
            st.g.set_bounds("tool-power", 0, 100)

    # ---- alphabet ----------------------------------------------------
    def ops(self, st):
        if getattr(self, "dynamic_dp", None):
            # the precision is changed on the live formatter between motion calls; absolute mode only, so that every axis
            # carries the rounding of the one word that last mentioned it
            a, b, c = self.values
            ops = [["format.set_decimal_places", [d]] for d in self.dynamic_dp]
            for kind in ("move", "rapid", "move_absolute"):
                for sh in ({"x": b}, {"x": c}, {"y": b, "z": c}, {"x": b, "y": b, "z": b}):
                    ops.append([kind, [], sh])
            ops += [["set_axis", [], {"x": b}], ["set_axis", [], {"z": c}], ["auto_home", [], {}]]
            return ops
        a, b, c = self.values
        shapes = [{"x": b}, {"x": c}, {"y": b}, {"z": a}, {"x": a, "z": c},
                  {"x": b, "y": c, "z": b}, {"F": 100}]
        ops = []
        if self.bounded:
            shapes = shapes[:3] + [{"x": 99}, {"y": b, "F": 5000}, {"z": a, "S": 500, "F": 100}, {"x": -2.5, "y": -2.5}]
        for kind in ("move", "rapid", "move_absolute", "rapid_absolute"):
            for s in shapes:
                ops.append([kind, [], s])
        if self.bounded:
            ops.append(["probe", ["towards"], {"z": -9}])
            ops.append(["probe", ["towards"], {"z": c, "F": 5000}])
            ops.append(["set_axis", [], {"x": 50}])
        ops.append(["move", [[b, None, c]], {}])
        ops.append(["set_axis", [["P", b, c, a]], {}])                 # point-like forms of the axis reset
        ops.append(["set_axis", [[c, b]], {}])
        ops.append(["!fault", ["move", [], {"x": c, "y": b}]])
        ops.append(["!fault", ["set_distance_mode", ["relative"]]])
        # free text on a motion call stays inside its comment (nothing of it moves the machine)
        ops.append(["move", [], {"y": c, "comment": "clamps\r\nG0 Z25 is the safe height\rG0 X-40 parks the head\nG92 X0"}])
        ops.append(["rapid", [], {"X": ["np64", b], "y": 2}])          # upper-case keyword, numpy scalar, int
        ops.append(["rapid", [["P", None, c, a]], {}])
        ops.append(["move_absolute", [["P", c, b, None]], {}])
        ops.append(["set_axis", [], {"x": a}])
        ops.append(["set_axis", [], {"x": b, "y": c, "z": a}])
        ops.append(["set_axis", [], {}])
        ops.append(["set_distance_mode", ["absolute"], {}])
        ops.append(["set_distance_mode", ["relative"], {}])
        if not self.is_core:
            # unrelated state-tracked commands interleaved with motion (they share tables and caches with it)
            ops.append(["set_extrusion_mode", ["relative"], {}])
            ops.append(["set_extrusion_mode", ["absolute"], {}])
            ops.append(["set_length_units", ["in"], {}])
            ops.append(["auto_home", [], {}])
            ops.append(["auto_home", [], {"x": 0}])
            ops.append(["auto_home", [], {"y": 0}])
            ops.append(["auto_home", [], {"y": 0, "z": 0}])
            ops.append(["probe", ["towards"], {"z": c}])
            ops.append(["probe", ["away-no-error"], {"x": b, "y": b}])
        if self.contexts:
            if len(st.ctx) < 2:
                ops.append(["enter", ["absolute_mode"], {}])
                ops.append(["enter", ["relative_mode"], {}])
            if st.ctx:
                ops.append(["exit", [], {}])
                ops.append(["exit!", [], {}])
                ops.append(["exit!k", [], {}])
        if self.tracers:
            p = st.g.position.resolve()
            rel = st.g.distance_mode.is_relative

            def tgt(dx, dy, dz=None):
                if rel:
                    return [dx, dy] if dz is None else [dx, dy, dz]
                return [p.x + dx, p.y + dy] if dz is None else [p.x + dx, p.y + dy, p.z + dz]

            ops.append(["trace.arc", [tgt(2, 2), [2, 0]], {}])
            ops.append(["trace.arc_radius", [tgt(2, 0), 1.5], {}])
            ops.append(["trace.circle", [[1, 0]], {}])
            if rel:
                ops.append(["trace.spline", [[[1, 1], [1, -1]]], {}])
                ops.append(["trace.polyline", [[[1, 0], [0, 1, 1]]], {}])
            else:
                ops.append(["trace.spline", [[tgt(1, 1), tgt(2, 0)]], {}])
                ops.append(["trace.polyline", [[tgt(1, 0), tgt(1, 1, 1)]], {}])
            ops.append(["trace.helix", [tgt(2, 0, 1), [1, 0]], {"turns": 1}])
            ops.append(["trace.thread", [tgt(2, 0, 2)], {"pitch": 1}])
            ops.append(["trace.spiral", [tgt(2, 0)], {"turns": 1}])
            ops.append(["line_parametric", [2.0], {}])
            ops.append(["line_parametric", [2.0, 1.5], {}])      # a curve that does not start at the current position
        return ops

    # ---- transition + oracle ----------------------------------------
    def step(self, st, op):
        problems = []
        if op[0] == "line_parametric":
            p = st.g.position.resolve()
            length = op[1][0]
            gap = op[1][1] if len(op[1]) > 1 else 0.0

            def fn(thetas, p=p, length=length, gap=gap):
                return np.column_stack((p.x + gap + thetas * length, p.y - gap + 0 * thetas, p.z + 0 * thetas))
            try:
                st.g.trace.parametric(fn, length)
                exc = None
            except Exception as e:   # noqa: BLE001
                exc = e
            chunks = st.rec.take()
            st.last_exc, st.last_rejected = exc, exc is not None
        else:
            entry_mode = st.ctxinfo[-1][1] if (op[0] in ("exit", "exit!", "exit!k") and st.ctxinfo) else None
            exc, chunks = self.apply(st, op)
            if entry_mode is not None and str(st.g.distance_mode) != entry_mode:
                problems.append(("context-did-not-restore-mode", f"{op[0]}: distance mode on entry was {entry_mode}, after leaving the context "
                                 f"{'(body raised) ' if op[0] != 'exit' else ''}it is {st.g.distance_mode}"))
        self.feed(st, chunks, problems)
        m = st.machine
        g = st.g
        modes = [g.distance_mode.is_relative]
        if not self.is_core:
            modes.append(g.state.distance_mode.is_relative)
        if any(x != m.relative for x in modes):
            problems.append(("distance-mode-mismatch",
                             f"builder reports relative={modes}, interpreter relative={m.relative}"))
        unit = 0.5 * 10 ** (-self.dp)
        per_axis = None
        if getattr(self, "dynamic_dp", None):
            if not hasattr(st, "axis_unit"):
                st.axis_unit, st.dp_now = {}, self.dp
            if op[0] == "format.set_decimal_places" and exc is None:
                st.dp_now = op[1][0]
            for info in st.last_infos:
                for ax in info["axes"]:
                    st.axis_unit[ax] = 0.5 * 10 ** (-st.dp_now)
            per_axis = st.axis_unit
        positions = [("position", g.position)]
        if not self.is_core:
            positions.append(("state.position", g.state.position))
        for i, a in enumerate(("X", "Y", "Z")):
            if not m.known[a]:
                continue
            budget = (m.rel_steps[a] + 1) * unit * 1.0000001 + 1e-9
            if per_axis is not None:
                budget = per_axis.get(a, unit) * 1.0000001 + 1e-9
            for label, pos in positions:
                v = pos[i]
                if v is None:
                    problems.append((f"{label}-unknown-on-known-axis",
                                     f"axis {a}: interpreter at {m.pos[a]} but builder {label} is None"))
                elif not abs(float(v) - m.pos[a]) <= budget:
                    problems.append((f"{label}-mismatch",
                                     f"axis {a}: interpreter at {m.pos[a]!r}, builder {label} {float(v)!r}, budget {budget:g}"))
        return problems

    def canon(self, st):
        g, m = st.g, st.machine
        return (
            pt(g.position),
            None if self.is_core else pt(g.state.position),
            str(g.distance_mode),
            None if self.is_core else str(g.state.distance_mode),
            tuple((rf(m.pos[a]) if m.known[a] else None, m.rel_steps[a] if m.known[a] else 0) for a in ("X", "Y", "Z")),
            m.relative,
            tuple(st.ctxinfo),
            None if self.is_core else (str(g.state.extrusion_mode), str(g.state.length_units)),
            (getattr(st, "dp_now", None), tuple(sorted(getattr(st, "axis_unit", {}).items()))),
        )

    def outcome(self, st):
        return (tuple(st.last_lines), type(st.last_exc).__name__ if st.last_exc else None)


def passive_hook(origin, target, params, state):
    return params


def hooked(system):
    system.hooked = True
    return system


def precision_changes(system, places):
    system.dynamic_dp = places
    return system


def after(system, prefix):
    system.prefix = prefix
    return system


def debug(system):
    system.debug_log = True
    return system


def systems(tier):
    exact = (0, 1.5, -2)
    rough = (0, 0.26, -1.17)
    if tier == "quick":
        return [
            ("builder-dp5-exact", C01System("builder-dp5-exact", 5, exact), 3, None),
            ("builder-dp1-rounding", C01System("builder-dp1-rounding", 1, rough, tracers=False), 3, None),
            ("core-dp5", C01System("core-dp5", 5, exact, cls=GCodeCore), 3, None),
            ("builder-dp0-integers", C01System("builder-dp0-integers", 0, (0, 120, -10), tracers=False), 3, None),
            ("builder-relabelled-axes", C01System("builder-relabelled-axes", 4, exact, tracers=True, relabel={"X": "A", "Z": "W"}), 2, None),
            ("builder-bounded-with-rejections", C01System("builder-bounded-with-rejections", 5, exact, tracers=False, bounded=True), 3, None),
            ("builder-dp12", C01System("builder-dp12", 12, (0, 0.123456789012, -2.000000123456), tracers=True), 2, None),
            ("builder-debug-logging", debug(C01System("builder-debug-logging", 5, exact)), 2, None),
            ("builder-passive-hook", hooked(C01System("builder-passive-hook", 5, exact)), 2, None),
            ("builder-relative-after-moves", after(C01System("builder-relative-after-moves", 5, exact, tracers=False),
                                                   [["move", [], {"x": 1.5, "y": -2, "z": 0.5}], ["rapid", [], {"x": -2}], ["set_distance_mode", ["relative"]]]), 3, None),
            ("builder-with-bystander", with_bystander(C01System("builder-with-bystander", 5, exact)), 2, None),
            ("builder-precision-changed-at-run-time", replayed(precision_changes(C01System("builder-precision-changed-at-run-time", 2, (0, 12.3456, -2.71828), tracers=False), (5, 2, 0))), 4, None),
        ]
    return [
        ("builder-dp0-integers", C01System("builder-dp0-integers", 0, (0, 120, -10), tracers=True), 3, None),
        ("builder-dp12", C01System("builder-dp12", 12, (0, 0.123456789012, -2.000000123456), tracers=True), 3, None),
        ("builder-bounded-with-rejections", C01System("builder-bounded-with-rejections", 5, exact, tracers=True, bounded=True), 3, None),
        ("builder-relabelled-axes", C01System("builder-relabelled-axes", 4, exact, tracers=True, relabel={"X": "A", "Z": "W"}), 3, None),
        ("builder-dp5-exact", C01System("builder-dp5-exact", 5, exact), 4, None),
        ("builder-dp1-rounding", C01System("builder-dp1-rounding", 1, rough, tracers=True), 3, None),
        ("builder-dp1-rounding-notrace", C01System("builder-dp1-rounding-notrace", 1, rough, tracers=False), 4, None),
        ("core-dp5", C01System("core-dp5", 5, exact, cls=GCodeCore), 5, None),
        ("builder-debug-logging", debug(C01System("builder-debug-logging", 5, exact)), 3, None),
        ("builder-passive-hook", hooked(C01System("builder-passive-hook", 5, exact)), 3, None),
        ("builder-relative-after-moves", after(C01System("builder-relative-after-moves", 5, exact, tracers=True),
                                               [["move", [], {"x": 1.5, "y": -2, "z": 0.5}], ["rapid", [], {"x": -2}], ["set_distance_mode", ["relative"]]]), 3, None),
        ("builder-with-bystander", with_bystander(C01System("builder-with-bystander", 5, exact)), 3, None),
        ("builder-precision-changed-at-run-time", precision_changes(C01System("builder-precision-changed-at-run-time", 2, (0, 12.3456, -2.71828), tracers=False), (5, 2, 0)), 5, None),
    ]


RULE = ("breadth-first search over call histories of the real GCodeBuilder/GCodeCore; alphabet = moves, rapids, "
        "absolute-bypass moves (axis subsets x values), set_axis, auto_home, probe, distance-mode switches, "
        "absolute_mode/relative_mode contexts (enter/exit/exit-with-exception, nesting<=2) and one op per tracer "
        "shape; after every call the emitted lines are run on an independent G0/G1/G90/G91/G92/G28/G38 "
        "interpreter and compared with position/state.position/distance_mode; a state is distinct when the "
        "tuple (builder position, state position, both modes, interpreter position+known flags+relative "
        "increment counters, open contexts) differs")

ASSUMPTIONS = [
    "interpreter semantics: G28/G38.x leave the mentioned axes unknown; relative moves on unknown axes stay unknown",
    "numeric budget: 0.5*10^-dp per emitted word, accumulated over relative increments since the last absolute anchor",
    "no transform active; values restricted to the stated alphabets; histories bounded by the reported depth",
]


def run(tier, seed):
    return run_configs("model_checking", systems(tier), tier, seed, RULE, ASSUMPTIONS)


def replay(body):
    label = body["replay"]["config"]
    for l, system, _, _ in systems("thorough") + systems("quick"):
        if l == label:
            return replay_history(system, body)
    raise SystemExit(f"unknown config {label}")
