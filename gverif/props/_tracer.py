"""Shared runner + geometry helpers for the tracer properties (C10, C11, C12)."""

import math

from ..harness import Sut
from ..oracles import lex
from ..oracles.machine import Machine

TWO_PI = 2 * math.pi


def to_mode(shape, largs, start, mode):
    """Logical (absolute) arguments -> arguments in the given distance mode.
    Logical args: dict with 'target' (abs xyz or xy), 'center' (relative to start, as the API defines),
    'targets' (list of abs points), plus scalars."""
    rel = mode == "relative"

    def cv(p, origin):
        if not rel:
            return list(p)
        return [p[i] - origin[i] for i in range(len(p))]

    a = dict(largs)
    if "target" in a:
        a["target"] = cv(a["target"], start)
    if "targets" in a:
        out, prev = [], list(start)
        for p in a["targets"]:
            out.append(cv(p, prev))
            prev = [p[i] if i < len(p) else prev[i] for i in range(3)]
        a["targets"] = out
    return a


def call_shape(g, shape, a):
    t = g.trace
    kw = a.get("kwargs", {})          # extra words / comment handed through to every segment
    form = a.get("form")              # 'point': pass Point objects instead of lists; 'np': numpy arrays
    if form:
        import numpy as np
        from gscrib.geometry import Point

        def cv(v):
            if form == "point":
                return Point(*v) if len(v) == 3 else Point(v[0], v[1])
            return np.array(v, dtype=float)
        a = dict(a)
        for k in ("target", "center"):
            if k in a:
                a[k] = cv(a[k])
        if "targets" in a:
            a["targets"] = [cv(p) for p in a["targets"]]
        if form == "np":
            for k in ("radius", "pitch"):          # scalar arguments as numpy scalars (what np.hypot / array indexing hand out)
                if k in a:
                    a[k] = np.float64(a[k])
    if shape == "arc":
        t.arc(a["target"], a["center"], **kw)
    elif shape == "arc_radius":
        t.arc_radius(a["target"], a["radius"], **kw)
    elif shape == "circle":
        t.circle(a["center"], **kw)
    elif shape == "helix":
        t.helix(a["target"], a["center"], a["turns"], **kw)
    elif shape == "thread":
        t.thread(a["target"], a["pitch"], **kw)
    elif shape == "spiral":
        t.spiral(a["target"], a["turns"], **kw)
    elif shape == "spline":
        t.spline(a["targets"], **kw)
    elif shape == "polyline":
        t.polyline(a["targets"], **kw)
    elif shape == "move":
        g.move(*([a["target"]] if len(a["target"]) == 3 else []), **({} if len(a["target"]) == 3 else {"x": a["target"][0], "y": a["target"][1]}))
    elif shape == "rapid":
        g.rapid(a["target"])
    else:
        raise ValueError(shape)


def passive_hook(origin, target, params, state):
    return params


class TraceRun:
    """One builder with a known start position; shapes are traced one after another."""

    def __init__(self, start, mode, direction, resolution, dp=8, units=None, hook=False, transform=False, unknown=False, bounds=False):
        self.st = Sut({"decimal_places": dp})
        g = self.st.g
        self.dp = dp
        self.machine = Machine()
        if units:
            g.set_length_units(units)
        g.set_resolution(float(resolution))
        # the documented spellings of a direction are used in turn (full name, short synonym, enum member), chosen by the start position
        from gscrib.enums import Direction
        spell = {"clockwise": ("clockwise", "cw", Direction.CLOCKWISE), "counter": ("counter", "ccw", Direction.COUNTER)}.get(direction)
        if spell is not None:
            direction = spell[(0 if start[0] == 0 else 1 if start[0] > 0 else 2)]
        g.set_direction(direction)
        if bounds:
            g.set_bounds("axes", (-1000, -1000, -1000), (1000, 1000, 1000))     # wide limits: only the far bypass target violates them
        if hook:
            g.add_hook(passive_hook)          # hooks see every move; this one hands the parameters back unchanged
        if transform:
            # a linear transform installed before the first motion; the start is reached by a full absolute move so that
            # machine and builder agree (machine = transform(start)) from the beginning
            if transform == "rot90":
                g.transform.rotate(90.0, "z")
            else:
                g.transform.scale(2.0)
                g.transform.rotate(30.0, "z")
            g.move(x=start[0], y=start[1], z=start[2])
        elif unknown:
            # a fresh builder: no axis position is known yet (the builder treats unknown coordinates as 0, and so does the
            # interpreter); `start` has to be the origin
            assert tuple(start) == (0.0, 0.0, 0.0)
            for ax in ("X", "Y", "Z"):          # the machine itself is at its origin; only the builder does not know it
                self.machine.pos[ax], self.machine.known[ax] = 0.0, True
        else:
            g.set_axis(x=start[0], y=start[1], z=start[2])
        g.set_distance_mode(mode)
        self.mode = mode
        self._drain()
        self.lines = 0

    def _drain(self):
        new = []
        for c in self.st.rec.take():
            block = c.decode("utf-8").rstrip("\r\n")
            words = [w for w in lex.executable_words(block) if w[0] != "?"]
            n = len(self.machine.vertices)
            self.machine.feed_words(words)
            if len(self.machine.vertices) > n:
                v = self.machine.vertices[-1][1]
                new.append((v["X"], v["Y"], v["Z"]))
        return new

    def pos(self):
        m = self.machine
        return (m.pos["X"], m.pos["Y"], m.pos["Z"])

    def trace(self, shape, largs, start=None):
        """Returns (exception, vertices emitted by this call). `start` is the logical (exact) position the
        arguments were derived from; it defaults to the interpreter's position (rounded to the output precision)."""
        start = self.pos() if start is None else start
        a = to_mode(shape, largs, start, self.mode)
        try:
            call_shape(self.st.g, shape, a)
            exc = None
        except Exception as e:   # noqa: BLE001
            exc = e
        return exc, self._drain()

    def budget(self, nvert):
        per = 0.5 * 10 ** (-self.dp)
        n = nvert if self.mode == "relative" else 1
        return (n + 1) * per * 1.001 + 1e-9


def dist(a, b):
    if any((a[i] is None) != (b[i] is None) for i in range(len(a))):
        return math.inf                 # known to one interpreter, unknown to the other
    return math.sqrt(sum((a[i] - b[i]) ** 2 for i in range(len(a)) if a[i] is not None))


def dist_xy(a, b):
    return math.hypot(a[0] - b[0], a[1] - b[1])


def unwrap(points, c, a0):
    """Unwrapped angles of points about c, continuing from angle a0 (each step taken as the
    representative closest to the previous angle)."""
    out, prev = [], a0
    for p in points:
        a = math.atan2(p[1] - c[1], p[0] - c[0])
        k = round((prev - a) / TWO_PI)
        a = a + k * TWO_PI
        out.append(a)
        prev = a
    return out


def enforce(direction, angle):
    """Documented direction semantics: clockwise sweeps are negative in (-2pi, 0) U {-2pi at 0}."""
    if direction == "clockwise":
        return angle - TWO_PI if angle >= 0 else angle
    return angle + TWO_PI if angle <= 0 else angle
