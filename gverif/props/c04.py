"""C04 - Coordinate transforms are applied faithfully to every move (E1)."""

import itertools

from ..common import Result, Violation, pmap, digest
from ..harness import Sut
from ..oracles import affine as A, lex
from ..oracles.machine import Machine
from .c13 import Model, model_step

TRANSFORMS = [
    ["transform.translate", [1.0, -2.0, 0.5]], ["transform.rotate", [90.0, "z"]], ["transform.rotate", [30.0, "x"]],
    ["transform.rotate", [-45.0, "y"]], ["transform.scale", [2.0]], ["transform.scale", [2.0, 0.5]],
    ["transform.scale", [1.0, 2.0, 3.0]], ["transform.reflect", [[1.0, 1.0, 0.0]]], ["transform.reflect", [[0.0, 1.0, -2.0]]],
    ["transform.mirror", ["xy"]], ["transform.mirror", ["zx"]], ["transform.mirror", []], ["transform.set_pivot", [[1.0, 1.0, 0.0]]],
    ["transform.set_pivot", [[0.5, -1.0, 2.0]]], ["transform.save_state", ["n"]], ["transform.restore_state", ["n"]],
    ["transform.save_state", []], ["transform.restore_state", []],
    ["transform.chain_transform", [["ref", "shear"]]],
    ["transform.translate", [0.0, 0.0, 2.5]], ["transform.translate", [0.0, -1.5, 0.0]],      # translations along one axis only       # a caller-owned matrix through the public chain_transform(), the same ndarray every time
]
SYNC = ["move", [], {"x": 1.0, "y": 2.0, "z": 3.0}]
MOTIONS = [
    ["move", [], {"x": 2.0}], ["move", [], {"y": -1.5}], ["move", [], {"z": 0.5}], ["move", [], {"x": 1.0, "y": 1.0}],
    ["move", [], {"x": 3.0, "y": -2.0, "z": 1.0}], ["rapid", [], {"x": -1.0}], ["rapid", [], {"y": 2.0, "z": 2.0}],
    ["move", [], {"x": 1.0, "y": 2.0}],
    ["set_distance_mode", ["relative"]], ["set_distance_mode", ["absolute"]],
    ["trace.polyline", [[[2.0, 0.0], [0.0, 1.0, 1.0]]]], ["arc"],
    ["probe", ["towards"], {"z": -1.0}], ["probe", ["away"], {"x": 2.0, "y": 0.5}],
]


def passive_hook(origin, target, params, state):
    return params


class Case:
    def __init__(self, dp):
        self.dp = abs(dp)
        self.st = Sut({"decimal_places": abs(dp)})
        g = self.st.g
        import numpy
        from .c13 import SHEAR
        self.st.refs["shear"] = numpy.array(SHEAR, dtype=float)
        if dp < 0:                 # negative = same precision, with a move hook registered
            g.add_hook(passive_hook)
        g.set_resolution(1.0)
        self.model = Model()
        self.machine = Machine()
        self.synced = False
        self.calls = []
        real_move = g.move

        def spy(point=None, **kw):
            self.calls.append(("move", g.position, g.distance_mode.is_relative, point, dict(kw)))
            return real_move(point, **kw)
        g.move = spy             # tracer shapes call g.move for every vertex: record what each of them requests
        self.nrel = 0

    def mat(self):
        return self.model.cur[0]

    def requested(self, origin, relative, point, kw):
        """Builder-coordinate origin and target of one requested move (documented semantics)."""
        o = [0.0 if c is None else float(c) for c in origin]
        if point is not None:
            req = list(point) + [None] * (3 - len(point))
        else:
            k = {a.lower(): v for a, v in kw.items()}
            req = [k.get("x"), k.get("y"), k.get("z")]
        if relative:
            t = [o[i] + (0.0 if req[i] is None else float(req[i])) for i in range(3)]
        else:
            t = [o[i] if req[i] is None else float(req[i]) for i in range(3)]
        return o, t, req

    def step(self, op):
        """Apply op; returns list of (sig, msg)."""
        P = []
        g = self.st.g
        name = op[0]
        if name.startswith("transform.") or name in ("enter", "exit", "exit!", "exit!k"):
            want_exc = model_step(self.model, op)
            exc, chunks = self.st.call(op)
            self.synced = False
            if (exc is None) != (want_exc is None):
                P.append(("transform-op-outcome", f"{op}: raised {exc!r}, reference model expects {want_exc}"))
            return P
        self.calls = []
        pre_pos, pre_rel = g.position, g.distance_mode.is_relative
        if name == "arc":
            p = g.position.resolve()
            tgt = [2.0, 2.0] if pre_rel else [p.x + 2.0, p.y + 2.0]
            op = ["trace.arc", [tgt, [2.0, 0.0]], {}]
        exc, chunks = self.st.call(op)
        if exc is not None:
            P.append((f"{name}-raised", f"{op} raised {exc!r}"))
            return P
        if name in ("rapid", "probe"):
            kw = op[2]
            self.calls = [(name, pre_pos, pre_rel, None, kw)]
        lines = []
        for c in chunks:
            block = c.decode("utf-8").rstrip("\r\n")
            words = [w for w in lex.executable_words(block) if w[0] != "?"]
            info = self.machine.feed_words(words)
            if info["kind"] in ("G0", "G1", "probe"):
                lines.append((block, info))
                if info["relative"]:
                    self.nrel += 1
        unit = 0.5 * 10 ** (-self.dp)
        eps = 1e-11 * 50
        if name in ("move", "rapid", "probe", "trace.polyline", "arc"):
            if len(lines) != len(self.calls):
                P.append(("line-count", f"{op}: {len(lines)} motion lines for {len(self.calls)} requested moves"))
                return P
            T = self.mat()
            for (block, info), (_, origin, rel, point, kw) in zip(lines, self.calls):
                o, t, req = self.requested(origin, rel, point, kw)
                To, Tt = A.apply(T, o), A.apply(T, t)
                for i, ax in enumerate(("X", "Y", "Z")):
                    want = (Tt[i] - To[i]) if rel else Tt[i]
                    if ax in info["axes"]:
                        if abs(info["axes"][ax] - want) > unit * 1.000001 + eps:
                            P.append((f"wrong-word-{'relative' if rel else 'absolute'}", f"{op}: line {block!r} has {ax}{info['axes'][ax]}, transform gives {want!r} (origin {o}, target {t})"))
                    elif abs(Tt[i] - To[i]) > 2 * unit + eps:
                        P.append(("axis-not-mentioned", f"{op}: line {block!r} omits {ax} although the machine coordinate has to change by {Tt[i] - To[i]!r}"))
        # end to end: once machine and builder agree, machine == transform(tracked position)
        if op[0] == "move" and op == SYNC and not g.distance_mode.is_relative:
            self.synced = True
            self.nrel = 0
        if self.synced and not P:
            pos = g.position
            if any(c is None for c in pos):
                self.synced = False      # probed axes are unknown from here on
            else:
                Tp = A.apply(self.mat(), pos)
                m = self.machine
                budget = (self.nrel + 1) * unit * 1.000001 + eps
                for i, ax in enumerate(("X", "Y", "Z")):
                    if m.known[ax] and abs(m.pos[ax] - Tp[i]) > budget:
                        P.append(("machine-not-at-transform-of-position", f"after {op}: machine {ax}={m.pos[ax]!r}, transform(position {tuple(pos)}) = {Tp[i]!r}"))
        return P


def run_history(item):
    dp, hist = item
    case = Case(dp)
    out = []
    for i, op in enumerate(hist):
        P = case.step(op)
        if P:
            for sig, msg in P[:2]:
                out.append((sig, msg, {"dp": dp, "history": hist[: i + 1]}))
            break
    m = case.machine
    return out, len(hist), digest((tuple(round(m.pos[a], 6) for a in ("X", "Y", "Z")), A.rounded(case.mat(), 6)))


def seqs(alphabet, maxlen):
    for n in range(0, maxlen + 1):
        for s in itertools.product(alphabet, repeat=n):
            yield list(s)


def histories(tier):
    terminal = [m for m in MOTIONS if m[0] == "probe"]
    nonterminal = [m for m in MOTIONS if m[0] != "probe"]
    out = []

    def motions(maxlen):
        for ms in seqs(nonterminal, maxlen):
            yield ms
            if len(ms) < maxlen:
                for t in terminal:
                    yield ms + [t]
    if tier == "quick":
        for ts in seqs(TRANSFORMS, 2):
            for ms in motions(2):
                out.append((12, ts + [SYNC] + ms))
        for ts in seqs(TRANSFORMS[:8], 1):
            for ms in motions(2):
                out.append((5, ts + [SYNC] + ms))
    else:
        for ts in seqs(TRANSFORMS, 3):
            for ms in motions(2):
                out.append((12, ts + [SYNC] + ms))
        for ts in seqs(TRANSFORMS, 2):
            for ms in motions(3):
                out.append((12, ts + [SYNC] + ms))
            for ms in motions(2):
                out.append((5, ts + [SYNC] + ms))
        # a transform change in the middle of a path: agreement is only demanded again after the next sync
        for t1 in TRANSFORMS:
            for m1 in nonterminal:
                for t2 in TRANSFORMS:
                    for m2 in MOTIONS:
                        out.append((12, [t1, SYNC, m1, t2, SYNC, m2]))
    # the transform is changed inside a current_transform() / named_transform() block; the block is left normally or by an
    # exception raised in its body; the moves that follow are emitted under the transform that was active before the block
    t0s = [[], [TRANSFORMS[0]], [TRANSFORMS[1]]] if tier == "quick" else [[]] + [[t] for t in TRANSFORMS[:7]]
    t1s = TRANSFORMS[:8] if tier == "quick" else TRANSFORMS[:14]
    inner = [[], [MOTIONS[3]], [SYNC]] if tier == "quick" else [[], [MOTIONS[3]], [SYNC], [SYNC, MOTIONS[8], MOTIONS[0]]]
    REL = ["set_distance_mode", ["relative"]]
    for t0 in t0s:
        for enter in ([["enter", ["current_transform"]]], [["transform.save_state", ["n"]], TRANSFORMS[4], ["enter", ["named_transform", "n"]]]):
            for t1 in t1s:
                for mid in inner:
                    for leave in ("exit", "exit!", "exit!k"):
                        # first move after the block: the synchronising move (the same target as the last move inside the
                        # block when that one was the synchronising move too), or a relative move
                        for ms in motions(1 if tier == "quick" else 2):
                            out.append((12, t0 + enter + [t1] + mid + [[leave], SYNC] + ms))
                        out.append((12, t0 + enter + [t1] + mid + [[leave], REL, MOTIONS[0], MOTIONS[4]]))
    # slightly coupling transforms, large coordinates, small steps: an unrequested axis must still be mentioned when its machine
    # coordinate changes by a printable amount, however small that is against the coordinate itself
    big = ["move", [], {"x": 150.0, "y": 80.0, "z": 40.0}]
    smalls = [["move", [], {"y": 80.1}], ["move", [], {"x": 150.05}], ["rapid", [], {"z": 40.01}], ["move", [], {"x": 150.02, "y": 80.0}]]
    rel_smalls = [["move", [], {"y": 0.1}], ["rapid", [], {"x": 0.05}], ["move", [], {"z": 0.01}]]
    for t in (["transform.rotate", [0.5, "z"]], ["transform.rotate", [0.05, "x"]], ["transform.rotate", [-0.2, "y"]], ["transform.reflect", [[1.0, 0.002, 0.0]]]):
        for dp in (5, 12):
            for m1 in smalls:
                for m2 in smalls:
                    out.append((dp, [t, big, m1, m2]))
            for m1 in rel_smalls:
                for m2 in rel_smalls:
                    out.append((dp, [t, big, ["set_distance_mode", ["relative"]], m1, m2, m1]))
    # the same caller-owned matrix chained repeatedly about a pivot (an incremental step applied in a loop)
    CH = TRANSFORMS[-1]
    for piv in (TRANSFORMS[11], TRANSFORMS[12]):
        for k in (2, 3):
            for ms in motions(1):
                out.append((12, [piv] + [CH] * k + [SYNC] + ms))
    # a move hook is registered (hooks see and may rewrite the parameters; this one returns them unchanged)
    for ts in seqs(TRANSFORMS[:12], 1 if tier == "quick" else 2):
        for ms in motions(2):
            out.append((-12, ts + [SYNC] + ms))
    return out


def run(tier, seed):
    res = Result("model_checking")
    hists = histories(tier)
    results = pmap(run_history, hists, chunksize=64)
    trans, states = 0, set()
    for out, n, key in results:
        trans += n
        states.add(key)
        for sig, msg, rp in out:
            res.add(Violation(sig, msg, rp))
    res.coverage = {
        "states": len(states), "transitions": trans, "traces_validated_against_impl": len(hists),
        "evaluations": len(hists), "distinct_nontrivial": len(states),
        "rule": ("histories = composition of <= 2-3 transform ops (translate, rotate about x/y/z, uniform/2-/3-factor scale, two reflections, mirrors, pivot change) + "
                 "a synchronising full-XYZ absolute move + <= 2-3 motion ops (partial-axis moves/rapids/probes, distance-mode switches, trace.arc, trace.polyline), at 12 and 5 "
                 "decimals, plus histories where the transform is changed inside a current_transform()/named_transform() block that is left normally, by an "
                 "Exception or by a BaseException before the moves (first move afterwards: to the point of the last move inside the block, elsewhere, or relative), "
                 "and histories with a pass-through move hook registered; every emitted motion word is compared with the image of the requested target/displacement under an independent pure-python affine model, every axis "
                 "whose machine coordinate must change has to be mentioned, and after every call the interpreter's machine position must equal transform(builder.position); "
                 "states = distinct (final machine position, matrix)"),
        "exhaustive": True, "exhaustive_note": "all histories of the stated shape are enumerated; the transform parameter values are fixed",
        "samples": [hists[1][1], hists[len(hists) // 2][1], hists[-1][1]],
    }
    res.assumptions = ["not demanded: absolute-bypass moves; agreement before the first synchronising move, after a transform change (until the next sync) or after a probe",
                       "requested moves of tracer shapes are observed by wrapping the public GCodeBuilder.move on the instance"]
    return res


def replay(body):
    rp = body["replay"]
    out, _, _ = run_history((rp["dp"], rp["history"]))
    return {"violations": [(s, m) for s, m, _ in out]}
