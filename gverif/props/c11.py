"""C11 - A toolpath is the same in relative and absolute distance mode (E1 differential)."""

import itertools
import math

from ..common import Result, Violation, pmap
from ._tracer import TraceRun, dist, to_mode, call_shape
from . import c10

STARTS = [(0.0, 0.0, 0.0), (10.0, 5.0, -2.0), (-3.5, 7.25, 1.0)]

# logical ops: name -> function(p, direction) -> (kind, logical args, expected end point or None)
# kind: a tracer shape / 'move' / 'rapid' / 'move_absolute' / 'rapid_absolute' / 'ctx_abs_move' / 'ctx_rel_move'


def off(p, d):
    return (p[0] + d[0], p[1] + d[1], p[2] + d[2])


def logical_ops():
    ops = {}
    def mv(kind, d3, n=3):
        return lambda p, d: (kind, {"target": list(off(p, d3))[:n]}, off(p, d3 if n == 3 else (d3[0], d3[1], 0)))

    def shape(fn):
        def f(p, d):
            k, a, exp = fn(p, d)
            return k, a, tuple(exp["end"])
        return f
    ops["move"] = mv("move", (3, -2, 1))
    ops["move-xy"] = mv("move", (-1.5, 2.5, 0), 2)
    ops["rapid"] = mv("rapid", (0, 4, -1))
    ops["move_absolute"] = mv("move_absolute", (2, 2, 2))
    ops["rapid_absolute"] = mv("rapid_absolute", (-2, 0, 1))
    ops["ctx_abs_move"] = mv("ctx_abs_move", (1, 1, 0))
    ops["ctx_rel_move"] = mv("ctx_rel_move", (0, -3, 0.5))
    # the body of the mode context raises after its move; the caller catches the error and carries on
    ops["ctx_abs_move_raise"] = mv("ctx_abs_move_raise", (2, -1, 0))
    ops["ctx_rel_move_raise"] = mv("ctx_rel_move_raise", (-1, 2, 0.5))
    # the body switches the distance mode itself; leaving the block brings back the mode that was active on entry
    ops["ctx_abs_switch"] = mv("ctx_abs_switch", (2, 4, -1))
    ops["ctx_rel_switch"] = mv("ctx_rel_switch", (-4, 2, 1))
    # the body contains a bypass move / a nested block of the other mode between its plain moves ("retract and come back")
    ops["ctx_abs_bypass"] = mv("ctx_abs_bypass", (2, 3, 4))
    ops["ctx_rel_bypass"] = mv("ctx_rel_bypass", (-3, 1, 2))
    ops["ctx_abs_nested"] = mv("ctx_abs_nested", (1, -2, 3))
    ops["ctx_rel_nested"] = mv("ctx_rel_nested", (3, 2, -1))
    # an axis reset that names one axis only (to the value it already has: the toolpath itself is unchanged), and a move the builder
    # refuses for its feed word (the caller catches the error and carries on): neither moves the tool
    ops["g92-partial"] = lambda p, d: ("g92_partial", {}, tuple(p))
    ops["refused-feed"] = lambda p, d: ("refused_feed", {}, tuple(p))
    ops["arc"] = shape(lambda p, d: c10.arc_case(p, d, 4.0, 90, None, 0))
    ops["arc-z"] = shape(lambda p, d: c10.arc_case(p, d, 3.0, 270, 2.0, 135))
    ops["arc_radius"] = shape(lambda p, d: c10.arc_radius_case(p, d, 5.0, 0.6, 30))
    ops["arc_radius-major"] = shape(lambda p, d: c10.arc_radius_case(p, d, -5.0, 0.6, 200))
    ops["arc_radius-z"] = shape(lambda p, d: c10.arc_radius_case(p, d, 4.0, 0.5, 100, dz=-2.0))
    ops["circle"] = shape(lambda p, d: c10.circle_case(p, d, 2.0, 60))
    ops["helix"] = shape(lambda p, d: c10.helix_case(p, d, 3.0, 0.5, 2, 90, 2.0, 200))
    ops["thread"] = shape(lambda p, d: c10.thread_case(p, d, 4.0, 20, 3.4, 1.0))
    ops["spiral"] = shape(lambda p, d: c10.spiral_case(p, d, 3.0, 75, 2, 1.0))
    ops["spline"] = shape(lambda p, d: c10.spline_case(p, [(3, 3, 1), (6, 0, 1), (3, -3, 0)]))
    ops["spline-closed"] = shape(lambda p, d: c10.spline_case(p, [(4, 0), (4, 4), (0, 0)]))
    ops["polyline"] = shape(lambda p, d: c10.polyline_case(p, [(2, 0), (2, 3, 1), (0, 0)]))
    # a waypoint exactly at the machine origin (and one repeated waypoint)
    ops["polyline-origin"] = shape(lambda p, d: c10.polyline_case(p, [(1.0, 2.0, 0.5), (-p[0], -p[1], -p[2]), (2.0 - p[0], 1.0 - p[1], -p[2]), (2.0 - p[0], 1.0 - p[1], -p[2])]))
    # moves that name a single axis (equal steps: the emitted line must still mention every machine axis that changes)
    ops["step-x"] = lambda p, d: ("move_axis", {"axis": "x", "target": [p[0] + 10.0, p[1], p[2]]}, (p[0] + 10.0, p[1], p[2]))
    ops["step-z"] = lambda p, d: ("move_axis", {"axis": "z", "target": [p[0], p[1], p[2] - 2.0]}, (p[0], p[1], p[2] - 2.0))
    # a bypass move the limits refuse (only used in histories with limits configured): the caller catches the error and carries on
    ops["rejected-bypass"] = lambda p, d: ("rejected_bypass", {}, tuple(p))
    # user-supplied parametric curves in absolute coordinates; the second one does not start at the current position
    ops["parametric"] = lambda p, d: ("parametric", {"origin": list(p), "offset": [0.0, 0.0, 0.0]}, (p[0] + 4.0, p[1], p[2] + 1.0))
    ops["parametric-detached"] = lambda p, d: ("parametric", {"origin": list(p), "offset": [3.0, -1.0, 0.5]}, (p[0] + 7.0, p[1] - 1.0, p[2] + 1.5))
    return ops


OPS = logical_ops()


def apply(run, kind, largs, start):
    """Apply one logical op to one twin; `start` is the exact logical position. Returns (exception, new vertices)."""
    g = run.st.g
    try:
        if kind in ("move_absolute", "rapid_absolute"):
            t = largs["target"]
            getattr(g, kind)(x=t[0], y=t[1], z=t[2])
        elif kind == "ctx_abs_move":
            with g.absolute_mode():
                g.move(largs["target"])
        elif kind == "ctx_abs_move_raise":
            try:
                with g.absolute_mode():
                    g.move(largs["target"])
                    raise KeyError("body failed")
            except KeyError:
                pass
        elif kind == "ctx_rel_move_raise":
            t = largs["target"]
            try:
                with g.relative_mode():
                    g.move([t[i] - start[i] for i in range(3)])
                    raise KeyError("body failed")
            except KeyError:
                pass
        elif kind == "move_axis":
            i = "xyz".index(largs["axis"])
            v = largs["target"][i]
            g.move(**{largs["axis"]: v if run.mode == "absolute" else v - start[i]})
        elif kind == "g92_partial":
            g.set_axis(z=start[2])
        elif kind == "refused_feed":
            for kw in ({"F": -1.0}, {"S": float("nan")}):
                try:
                    if run.mode == "absolute":
                        g.move(x=start[0] + 7.0, y=start[1] - 3.0, **kw)
                    else:
                        g.move(x=7.0, y=-3.0, **kw)
                except ValueError:
                    pass
        elif kind == "rejected_bypass":
            for call in (g.move_absolute, g.rapid_absolute):
                try:
                    call(x=5000.0, y=start[1])
                except ValueError:
                    pass
        elif kind == "ctx_abs_switch":
            t = largs["target"]
            mid = [(t[i] + start[i]) / 2 for i in range(3)]
            with g.absolute_mode():
                g.move(mid)
                g.set_distance_mode("relative")
                g.move([t[i] - mid[i] for i in range(3)])
        elif kind == "ctx_rel_switch":
            t = largs["target"]
            mid = [(t[i] + start[i]) / 2 for i in range(3)]
            with g.relative_mode():
                g.move([mid[i] - start[i] for i in range(3)])
                g.set_distance_mode("absolute")
                g.move(t)
        elif kind in ("ctx_abs_bypass", "ctx_abs_nested"):
            t = largs["target"]
            mid = [start[0], start[1], t[2]]
            with g.absolute_mode():
                g.move(x=start[0], y=start[1], z=start[2])
                if kind == "ctx_abs_bypass":
                    g.rapid_absolute(x=mid[0], y=mid[1], z=mid[2])
                else:
                    with g.relative_mode():
                        g.move(z=mid[2] - start[2])
                g.move(t)
        elif kind in ("ctx_rel_bypass", "ctx_rel_nested"):
            t = largs["target"]
            mid = [start[0], start[1], t[2]]
            with g.relative_mode():
                g.move(x=0.0, y=0.0)
                if kind == "ctx_rel_bypass":
                    g.move_absolute(x=mid[0], y=mid[1], z=mid[2])
                else:
                    with g.absolute_mode():
                        g.move(mid)
                g.move([t[i] - mid[i] for i in range(3)])
        elif kind == "ctx_rel_move":
            t = largs["target"]
            with g.relative_mode():
                g.move([t[i] - start[i] for i in range(3)])
        elif kind == "parametric":
            import numpy as np
            o, off = largs["origin"], largs["offset"]

            def fn(thetas, o=o, off=off):
                # half a turn of radius 2 in XY plus a linear rise, in absolute coordinates
                x = o[0] + off[0] + 2.0 - 2.0 * np.cos(np.pi * thetas)
                y = o[1] + off[1] + 2.0 * np.sin(np.pi * thetas) * 0 + 0 * thetas
                z = o[2] + off[2] + thetas
                return np.column_stack((x, y, z))
            g.trace.parametric(fn, 4.2)
        else:
            a = to_mode(kind, largs, start, run.mode)
            if kind in ("move", "rapid"):
                t = a["target"]
                kw = {"x": t[0], "y": t[1]}
                if len(t) > 2:
                    kw["z"] = t[2]
                getattr(g, kind)(**kw)
            else:
                call_shape(g, kind, a)
        exc = None
    except Exception as e:   # noqa: BLE001
        exc = e
    return exc, run._drain()


def run_history(item):
    start, direction, names = item[:3]
    opts = item[3] if len(item) > 3 else {}
    twins = {m: TraceRun(start, m, direction, 1.0, dp=8, **opts) for m in ("absolute", "relative")}
    out = []
    total = 0
    p = start
    for depth, name in enumerate(names):
        # the logical position is carried exactly (both twins are told the same path by someone who knows where
        # the previous step ended); the twins' interpreters only differ from it by output rounding
        kind, largs, end = OPS[name](p, direction)
        res = {m: apply(t, kind, largs, p) for m, t in twins.items()}
        (ea, va), (er, vr) = res["absolute"], res["relative"]
        rp = {"start": start, "direction": direction, "ops": list(names), "failing_op": depth, "opts": opts}
        if (ea is None) != (er is None):
            out.append((f"{kind}:raises-in-one-mode-only", f"{names} step {depth} ({kind} {largs}): absolute -> {ea!r}, relative -> {er!r}", rp))
            break
        if ea is not None:
            break
        total += len(va)
        tol = twins["relative"].budget(total) + twins["absolute"].budget(total) + 1e-7
        if len(va) != len(vr):
            out.append((f"{kind}:vertex-count-differs", f"{names} step {depth} ({kind}): {len(va)} vertices in absolute mode, {len(vr)} in relative mode", rp))
            break
        bad = next(((i, a, r) for i, (a, r) in enumerate(zip(va, vr)) if dist(a, r) > tol), None)
        if bad:
            out.append((f"{kind}:vertices-differ", f"{names} step {depth} ({kind} {largs}): vertex {bad[0]} absolute {bad[1]} vs relative {bad[2]} (tol {tol:g})", rp))
            break
        for m, t in twins.items():
            gm = t.st.g.distance_mode.value
            if gm != m:
                out.append((f"{kind}:mode-not-restored", f"{names} step {depth}: twin {m} is left in {gm} mode", rp))
        if out:
            break
        p = end
    return out, total


def run(tier, seed):
    res = Result("model_checking")
    names = [n for n in OPS if n != "rejected-bypass"]
    hists = []
    if tier == "quick":
        for s in STARTS:
            for d in ("clockwise", "counter"):
                for h in itertools.product(names, repeat=2):
                    hists.append((s, d, h))
        # depth 3: plain-motion prefix of two ops, every op last
        plain = ["move", "rapid_absolute", "ctx_rel_move", "ctx_abs_move_raise"]
        for h in itertools.product(plain, plain, names):
            hists.append((STARTS[1], "clockwise", h))
    else:
        for i, s in enumerate(STARTS):
            for h in itertools.product(names, repeat=3):
                hists.append((s, ("clockwise", "counter")[(i + len(h[0])) % 2], h))
    # the same twins with a pass-through move hook registered, and under a linear transform installed before the first motion
    simple = [n for n in names if n in ("move", "move-xy", "rapid", "move_absolute", "rapid_absolute", "ctx_abs_move", "ctx_rel_move", "polyline", "arc", "circle")]
    for opts in ({"hook": True}, {"transform": True}, {"hook": True, "transform": True}):
        pool = names if (tier == "thorough" or opts == {"hook": True}) else simple
        first = simple
        if opts.get("transform"):
            # bypass moves ignore the transform by contract: afterwards machine and builder no longer agree and the two
            # modes legitimately diverge, so they are left out under a transform
            pool = [n for n in pool if "absolute" not in n and "bypass" not in n and "g92" not in n]
            first = [n for n in simple if "absolute" not in n]
        for h in itertools.product(first, pool):
            hists.append((STARTS[1], "clockwise", h, opts))
    # equal single-axis steps from the fixed point of a quarter-turn rotation (and of the scale+rotate transform)
    for tr in ("rot90", True):
        for h in (("step-x", "step-x", "step-x"), ("step-x", "step-z", "step-x", "step-x"), ("step-z", "step-z", "step-x"), ("step-x", "move", "step-x", "step-x")):
            hists.append((STARTS[0], "clockwise", h, {"transform": tr}))
    # axes limits configured, a refused bypass move in the middle of the path
    for a in ("move", "rapid", "arc"):
        for b in simple:
            hists.append((STARTS[1], "clockwise", (a, "rejected-bypass", b), {"bounds": True}))
            hists.append((STARTS[1], "counter", ("rejected-bypass", b), {"bounds": True}))
    # from a fresh builder (no axis position known yet): every op first, and behind one plain op
    for h in [(n,) for n in names] + [(a, b) for a in ("rapid", "move-xy") for b in names]:
        hists.append((STARTS[0], "counter", h, {"unknown": True}))
    results = pmap(run_history, hists, chunksize=8)
    nv = 0
    for out, total in results:
        nv += total
        for sig, msg, rp in out:
            res.add(Violation(sig, msg, rp))
    nstates = sum(len(h[2]) for h in hists)
    res.coverage = {
        "states": nstates, "transitions": 2 * nstates, "traces_validated_against_impl": len(hists),
        "evaluations": len(hists), "distinct_nontrivial": len(hists),
        "rule": (f"every sequence of {'2 (plus a depth-3 family)' if tier == 'quick' else '3'} logical toolpath ops from {names} from 3 start positions, plus two-op histories with a pass-through move hook registered and/or under a linear transform (scale 2, rotate 30 degrees) installed before the first motion; "
                 "each history is executed on two real builders in lock-step, one in absolute and one in relative distance mode (the relative twin receives "
                 "offsets); machine vertices rebuilt by the independent interpreter must agree pairwise, with equal counts and equal exception behaviour; "
                 "states = twin-pair states visited, transitions = real calls"),
        "exhaustive": True, "exhaustive_note": "all histories of the stated depth over the stated logical alphabet; resolution 1.0, 8 decimals",
        "vertices_compared": nv,
        "samples": [{"start": h[0], "direction": h[1], "ops": list(h[2]), "opts": (h[3] if len(h) > 3 else {})} for h in (hists[0], hists[len(hists) // 2], hists[-1])],
    }
    res.assumptions = ["tolerance = accumulated output rounding of both twins + 1e-7"]
    return res


def replay(body):
    rp = body["replay"]
    out, _ = run_history((tuple(rp["start"]), rp["direction"], tuple(rp["ops"]), rp.get("opts") or {}))
    return {"violations": [(s, m) for s, m, _ in out]}
