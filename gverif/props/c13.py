"""C13 - Transform states are saved, restored and inverted exactly (E1)."""

import copy

from ._base import run_configs, replay_history
from ..harness import Sut
from ..oracles import affine as A
from ..common import import_gscrib, rf

import_gscrib()
from gscrib import GCodeCore   # noqa: E402

PROBES = ((0.0, 0.0, 0.0), (1.0, 2.0, 3.0), (-4.5, 0.25, 7.0))
TOL = 1e-8


def close(p, q, scale=1.0, slack=0.0):
    return all(abs(float(a) - float(b)) <= TOL * max(1.0, scale, abs(float(b))) + slack for a, b in zip(p, q))


class Model:
    def __init__(self):
        self.cur = (A.I4, (0.0, 0.0, 0.0))
        self.stack = []
        self.named = {}
        self.ctx = []      # snapshots (cur, stack copy)
        self.made = []     # context managers obtained but not entered yet (their arguments)

    def key(self):
        f = lambda mp: (A.rounded(mp[0]), tuple(rf(v) for v in mp[1]))
        return (f(self.cur), tuple(f(s) for s in self.stack), tuple(sorted((k, f(v)) for k, v in self.named.items())),
                tuple((f(c), tuple(f(s) for s in st)) for c, st in self.ctx), tuple(tuple(a) for a in self.made))


# a caller-owned matrix (an XY shear plus an offset) handed to the public chain_transform(), the same ndarray every time
SHEAR = ((1.0, 0.25, 0.0, 0.5), (0.0, 1.0, 0.0, -1.0), (0.0, 0.0, 1.0, 0.0), (0.0, 0.0, 0.0, 1.0))

TRANSFORM_OPS = {
    "transform.chain_transform": lambda a: SHEAR,
    "transform.translate": lambda a: A.translation(a[0], a[1], a[2] if len(a) > 2 else 0.0),
    "transform.rotate": lambda a: A.rotation(a[0], a[1] if len(a) > 1 else "z"),
    "transform.scale": lambda a: A.scale_args(a),
    "transform.reflect": lambda a: A.reflection(a[0]),
    "transform.mirror": lambda a: A.reflection(A.PLANE_NORMAL[a[0] if a else "zx"]),
}


def model_step(m, op):
    """Returns the exception class expected (or None)."""
    name, args = op[0], (op[1] if len(op) > 1 else [])
    if name in TRANSFORM_OPS:
        if name == "transform.scale" and (not 1 <= len(args) <= 3 or any(v == 0 for v in args)):
            return ValueError
        if name == "transform.reflect" and all(v == 0 for v in args[0]):
            return ValueError
        x = TRANSFORM_OPS[name](args)
        m.cur = (A.chain(m.cur[0], m.cur[1], x), m.cur[1])
        return None
    if name == "transform.set_pivot":
        m.cur = (m.cur[0], tuple(float(v) for v in args[0]))
        return None
    if name == "transform.save_state":
        if args and args[0]:
            m.named[args[0]] = m.cur
        else:
            m.stack.append(m.cur)
        return None
    if name == "transform.restore_state":
        if args and args[0]:
            if args[0] not in m.named:
                return KeyError
            m.cur = m.named[args[0]]
        else:
            if not m.stack:
                return IndexError
            m.cur = m.stack.pop()
        return None
    if name == "transform.delete_state":
        if args[0] not in m.named:
            return KeyError
        del m.named[args[0]]
        return None
    if name == "enter":
        snap = (m.cur, list(m.stack))
        if args[0] == "named_transform":
            if args[1] not in m.named:
                return KeyError
            m.cur = m.named[args[1]]
        m.ctx.append(snap)
        return None
    if name == "make":
        m.made.append(list(args))
        return None
    if name == "enter-made":
        return model_step(m, ["enter", m.made.pop()])
    if name in ("exit", "exit!", "exit!k"):
        cur, stack = m.ctx.pop()
        m.cur, m.stack = cur, list(stack)
        return None
    raise ValueError(f"unknown op {op}")


class C13System:
    deep = True      # search key refined by everything reachable from the real object (a cache the model does not know separates states)

    def __init__(self, transform_ops, nest=2, errors=True, rename=None, deferred=False):
        self.deferred = deferred    # context-manager objects are obtained first and entered later
        self.transform_ops = transform_ops
        self.nest = nest
        self.errors = errors
        self.rename = rename or {}      # other spellings for the state names (each name is always spelled the same way)

    def fresh(self):
        st = Sut({}, GCodeCore)
        import numpy
        st.refs["shear"] = numpy.array(SHEAR, dtype=float)
        st.model = Model()
        st.last_rejected = False
        st.last_exc = None
        st.last_lines = []
        return st

    def ops(self, st):
        ops = list(self.transform_ops)
        ops += [
            ["transform.save_state"], ["transform.save_state", ["a"]], ["transform.save_state", ["b"]],
            ["transform.restore_state"], ["transform.restore_state", ["a"]], ["transform.restore_state", ["b"]],
            ["transform.delete_state", ["a"]],
        ]
        if self.errors:
            ops += [["transform.scale", [0.0]], ["transform.reflect", [[0.0, 0.0, 0.0]]],
                    ["transform.scale", [2.0, 0.0]], ["transform.scale", [0.0, 1.0, 1.0]]]       # some, not all, factors zero
        else:
            ops = [o for o in ops if o != ["transform.save_state", ["b"]] and o != ["transform.restore_state", ["b"]]
                   and o != ["transform.delete_state", ["a"]]]
        if len(st.ctx) < self.nest:
            ops.append(["enter", ["current_transform"]])
            ops.append(["enter", ["named_transform", "a"]])
        if st.ctx:
            ops.append(["exit"])
            ops.append(["exit!"])
            ops.append(["exit!k"])
        if self.deferred:
            ops = [o for o in ops if o[0] != "enter"]
            if len(st.ctx) + len(st.made) < self.nest:
                ops.append(["make", ["current_transform"]])
                ops.append(["make", ["named_transform", "a"]])
            if st.made:
                ops.append(["enter-made"])
        if self.rename:
            # delete_state is left out here: the property says nothing about deleting, and the pinned code looks the name up
            # unstripped there (delete_state("  n ") raises KeyError after save_state("  n ")) - recorded in DESIGN.md as an observation
            ops = [o for o in ops if o[0] != "transform.delete_state"]
            ops = [[o[0], [self.rename.get(a, a) if isinstance(a, str) else a for a in o[1]]] + o[2:] if len(o) > 1 else o for o in ops]
        return ops

    def _compare(self, tr, mp, what, problems, op):
        mat, piv = mp
        inv = A.inverse(mat)
        # float conditioning: an image of size |img| carries eps*|img| of noise, which the inverse amplifies by its norm
        amp = max(sum(abs(inv[i][k]) for k in range(4)) for i in range(3))
        for p in PROBES:
            # reversing a transformed point returns the original point (relative to the size of the original)
            try:
                img = tr.apply_transform(p)
                back = tr.reverse_transform(img)
                slack = 16 * 2.3e-16 * max(1.0, max(abs(float(v)) for v in img)) * amp
                if not all(abs(float(a) - float(b)) <= TOL * max(1.0, abs(float(b))) + slack for a, b in zip(back, p)):
                    problems.append((f"{what}-round-trip", f"after {op}: {what} reverse(apply{p}) = {tuple(back)}"))
            except Exception as e:     # noqa: BLE001
                problems.append((f"{what}-round-trip-raised", f"after {op}: reverse(apply{p}) raised {e!r}"))
            want = A.apply(mat, p)
            got = tr.apply_transform(p)
            if not close(got, want):
                problems.append((f"{what}-apply-mismatch", f"after {op}: {what} apply{p} = {tuple(got)}, model {want}"))
                return
            back = tr.reverse_transform(want)
            if not close(back, p, scale=max(abs(v) for v in want), slack=16 * 2.3e-16 * max(1.0, max(abs(v) for v in want)) * amp):
                problems.append((f"{what}-reverse-mismatch", f"after {op}: {what} reverse{want} = {tuple(back)}, expected {p}"))
                return
            wantr = A.apply(inv, p)
            gotr = tr.reverse_transform(p)
            if not close(gotr, wantr, scale=max(abs(v) for v in wantr), slack=16 * 2.3e-16 * max(1.0, max(abs(v) for v in p)) * amp):
                problems.append((f"{what}-reverse-mismatch", f"after {op}: {what} reverse{p} = {tuple(gotr)}, model {wantr}"))
                return

    def step(self, st, op):
        problems = []
        m = st.model
        tr = st.g.transform
        old_cur = m.cur
        pre = copy.deepcopy(tr) if op[0] in ("transform.rotate", "transform.scale") else None
        want_exc = model_step(m, op)
        exc, _ = st.call(op)
        st.last_exc, st.last_rejected = exc, exc is not None
        tr = st.g.transform
        if want_exc is not None:
            if exc is None:
                problems.append(("not-rejected", f"{op} should raise {want_exc.__name__} but succeeded"))
            elif not isinstance(exc, want_exc):
                problems.append(("wrong-exception-type", f"{op} raised {exc!r}, expected {want_exc.__name__}"))
        elif exc is not None:
            problems.append(("spurious-exception", f"{op} raised {exc!r}"))
        if problems:
            return problems
        import numpy
        if not numpy.array_equal(st.refs["shear"], numpy.array(SHEAR)):
            problems.append(("caller-argument-modified", f"{op}: the matrix the caller handed to chain_transform() was changed in place: {st.refs['shear'].tolist()}"))
            return problems
        # current mapping
        self._compare(tr, m.cur, "current", problems, op)
        # pivot fixed by rotations and scalings (statement clause, independent of the matrix model)
        if pre is not None and exc is None:
            piv = m.cur[1]
            q = pre.reverse_transform(piv)
            img = tr.apply_transform(q)
            if not close(img, piv, scale=max(abs(v) for v in q)):
                problems.append(("pivot-not-fixed", f"after {op}: pre-image {tuple(q)} of pivot {piv} now maps to {tuple(img)}"))
        # every stored state, observed through the public API on a scratch copy
        if not problems:
            scratch = copy.deepcopy(tr)
            for name in sorted(m.named):
                try:
                    scratch.restore_state(name)
                except Exception as e:   # noqa: BLE001
                    problems.append(("named-state-missing", f"after {op}: restore_state({name!r}) raised {e!r}"))
                    break
                self._compare(scratch, m.named[name], f"named[{name}]", problems, op)
            scratch = copy.deepcopy(tr)
            for depth, mp in enumerate(reversed(m.stack)):
                try:
                    scratch.restore_state()
                except Exception as e:   # noqa: BLE001
                    problems.append(("stack-too-short", f"after {op}: stack entry {depth} missing ({e!r})"))
                    break
                self._compare(scratch, mp, f"stack[-{depth + 1}]", problems, op)
            else:
                try:
                    scratch.restore_state()
                    problems.append(("stack-too-long", f"after {op}: stack has more entries than saved"))
                except IndexError:
                    pass
                except Exception as e:   # noqa: BLE001
                    problems.append(("stack-too-long", f"after {op}: extra restore raised {e!r}"))
        return problems

    def canon(self, st):
        tr = st.g.transform
        probe = tuple(tuple(rf(v, 7) for v in tr.apply_transform(p)) for p in PROBES)
        return (probe, st.model.key(), len(st.ctx))

    def outcome(self, st):
        tr = st.g.transform
        return (tuple(rf(v, 6) for v in tr.apply_transform(PROBES[1])), type(st.last_exc).__name__ if st.last_exc else None)


FULL = [
    ["transform.translate", [1.0, -2.0, 0.5]], ["transform.rotate", [90.0, "z"]], ["transform.rotate", [30.0, "x"]],
    ["transform.rotate", [-45.0, "y"]], ["transform.scale", [2.0]], ["transform.scale", [2.0, 0.5]],
    ["transform.scale", [1.0, 2.0, 3.0]], ["transform.reflect", [[1.0, 1.0, 0.0]]], ["transform.mirror", ["xy"]],
    ["transform.mirror", []], ["transform.set_pivot", [[1.0, 1.0, 0.0]]], ["transform.set_pivot", [[0.0, 0.0, 0.0]]],
    ["transform.set_pivot", [[0.5, -1.0, 2.0]]], ["transform.translate", [2.0, 3.0]], ["transform.rotate", [45.0]],
]
SMALL = [["transform.translate", [1.0, -2.0, 0.5]], ["transform.rotate", [30.0, "x"]], ["transform.scale", [2.0, 0.5]],
         ["transform.set_pivot", [[1.0, 1.0, 0.5]]]]

RULE = ("BFS over histories of translate/rotate/scale/reflect/mirror/set_pivot/save_state/restore_state/delete_state (stack and "
        "names a,b), current_transform/named_transform contexts (enter/exit/exit-with-exception, nesting<=2) and the error ops on the "
        "real CoordinateTransformer inside a GCodeCore; after every op apply/reverse on three probe points are compared with an "
        "independent pure-python 4x4 model, for the current transform and for every stacked and named state (each restored on a scratch "
        "copy through the public API); rotations/scalings must fix the pivot; distinct = distinct (probe images, model state)")
ASSUMPTIONS = ["relative tolerance 1e-8 on probe-point images", "pivots are 3-tuples", "matrices reachable with the listed parameters only"]


TINY = [["transform.translate", [1.0, -2.0, 0.5]], ["transform.scale", [2.0, 0.5]]]


# the same pivot set again after a restore / a block brought back another one; rotations and scalings about it
PIVOT = [["transform.set_pivot", [[1.0, 1.0, 0.0]]], ["transform.rotate", [90.0, "z"]], ["transform.scale", [2.0]]]
# a pivot on the Z axis, rotations about x, a caller-owned matrix chained about it
PIVOT_Z = [["transform.set_pivot", [[0.0, 0.0, 5.0]]], ["transform.rotate", [90.0, "x"]], ["transform.scale", [2.0]],
           ["transform.chain_transform", [["ref", "shear"]]], ["transform.set_pivot", [[1.0, 1.0, 0.0]]]]

# strong down-scaling (a unit conversion): the round trip is judged relative to the original point
DOWN = [["transform.scale", [1e-6]], ["transform.rotate", [30.0, "z"]], ["transform.translate", [1.0, -2.0, 0.5]], ["transform.set_pivot", [[0.5, -1.0, 2.0]]]]
# empty / blank names mean "no name" for save_state and restore_state alike
BLANK_NAMES = {"a": "", "b": "  "}

# state names with surrounding blanks / a line break / non-ASCII letters, and a name that only differs from another in case
ODD_NAMES = {"a": "  fixture left\n", "b": "Ünïcode B "}


def systems(tier):
    # "ctx" = tiny transform alphabet so that save / enter / restore / transform / exit / observe chains (depth 5-6) are reached
    if tier == "quick":
        return [("full-d3", C13System(FULL), 3, None), ("small-d4", C13System(SMALL), 4, None),
                ("ctx-d6", C13System(TINY, errors=False), 6, None),
                ("odd-names-d4", C13System(TINY, rename=ODD_NAMES), 4, None),
                ("deferred-ctx-d5", C13System(TINY, errors=False, deferred=True), 5, None),
                ("pivot-d5", C13System(PIVOT, errors=False, nest=1), 5, None),
                ("pivot-z-d3", C13System(PIVOT_Z, errors=False, nest=1), 3, None),
                ("downscale-d3", C13System(DOWN, errors=False, nest=0), 3, None)]
    return [("full-d4", C13System(FULL), 4, None), ("small-d6", C13System(SMALL), 6, None),
            ("ctx-d7", C13System(TINY, errors=False), 7, None),
            ("odd-names-d5", C13System(TINY, rename=ODD_NAMES), 5, None),
            ("deferred-ctx-d6", C13System(TINY, errors=False, deferred=True), 6, None),
            ("pivot-d6", C13System(PIVOT, errors=False, nest=1), 6, None),
            ("pivot-z-d4", C13System(PIVOT_Z, errors=False, nest=1), 4, None),
            ("downscale-d4", C13System(DOWN, errors=False, nest=0), 4, None)]


def matched_pairs():
    """save(n) ... restore(n) pairs, properly nested, with names that an implementation may read as 'no name' (None, '', blanks):
    whichever way it reads them, a restore brings back the state of its matching save. Returns a list of problems."""
    out = []
    T = [["transform.translate", [1.0, -2.0, 0.5]], ["transform.scale", [2.0, 0.5]], ["transform.rotate", [30.0, "x"]], ["transform.mirror", ["xy"]]]
    names = [[], [""], ["  "], ["\t"], ["n"]]
    for outer in names:
        for inner in names:
            if outer == inner and outer:
                continue                       # the same real name twice would overwrite the outer snapshot: not a nesting
            st = Sut({}, GCodeCore)
            m = Model()
            hist = []

            def do(op, expect=None):
                hist.append(op)
                exc, _ = st.call(op)
                if exc is not None:
                    out.append(("matched-pair-raised", f"{hist}: {op} raised {exc!r}", list(hist)))
                    return False
                if op[0] in TRANSFORM_OPS:
                    model_step(m, op)
                if expect is not None:
                    for p in PROBES:
                        got, want = st.g.transform.apply_transform(p), A.apply(expect, p)
                        if not close(got, want):
                            out.append(("matched-pair-restores-another-state", f"{hist}: apply{p} = {tuple(got)}, the state of the matching save gives {want}", list(hist)))
                            return False
                return True
            ok = do(T[0])
            m1 = m.cur[0]
            ok = ok and do(["transform.save_state", outer]) and do(T[1])
            m2 = m.cur[0]
            ok = ok and do(["transform.save_state", inner]) and do(T[2]) and do(["transform.restore_state", inner], expect=m2)
            if ok:
                m.cur = (m2, m.cur[1])
            ok = ok and do(T[3]) and do(["transform.restore_state", outer], expect=m1)
    return out


def deep_nesting(depths=(8, 33, 40, 130)):
    """N unnamed saves outstanding at once (one translation between two saves), then N restores: each restore brings back the
    state of its save, whatever the depth. Inside a current_transform() block too. Returns a list of problems."""
    out = []
    for depth in depths:
        for in_block in (False, True):
            st = Sut({}, GCodeCore)
            tr = st.g.transform
            hist = [f"depth {depth}", "inside current_transform()" if in_block else "plain"]
            try:
                cm = st.g.current_transform() if in_block else None
                if cm is not None:
                    cm.__enter__()
                offsets = []
                for i in range(depth):
                    tr.save_state()
                    tr.translate(1.0 + i, -0.5 * i, 0.25)
                    offsets.append((1.0 + i, -0.5 * i, 0.25))
                for i in range(depth - 1, -1, -1):
                    tr.restore_state()
                    want = tuple(sum(o[k] for o in offsets[:i]) + (1.0, 2.0, 3.0)[k] for k in range(3))
                    got = tuple(float(v) for v in tr.apply_transform((1.0, 2.0, 3.0)))
                    if any(abs(a - b) > 1e-6 for a, b in zip(got, want)):
                        out.append(("deep-nesting-restores-another-state", f"{depth} saves outstanding: restore #{depth - i} gives apply(1,2,3) = {got}, the state of its save gives {want}", hist))
                        break
                if cm is not None:
                    cm.__exit__(None, None, None)
                    got = tuple(float(v) for v in tr.apply_transform((1.0, 2.0, 3.0)))
                    if any(abs(a - b) > 1e-9 for a, b in zip(got, (1.0, 2.0, 3.0))):
                        out.append(("deep-nesting-block-exit", f"after the block: apply(1,2,3) = {got}", hist))
            except Exception as e:   # noqa: BLE001
                out.append(("deep-nesting-raised", f"{depth} saves outstanding ({hist[1]}): {e!r}", hist))
    return out


def run(tier, seed):
    res = run_configs("model_checking", systems(tier), tier, seed, RULE, ASSUMPTIONS, snapshot_check=True)
    from ..common import Violation as _V
    for sig, msg, hist in deep_nesting():
        res.add(_V(sig, msg, {"config": "deep-nesting", "history": hist}))
    res.coverage["deep_nesting_depths"] = [8, 33, 40, 130]
    from ..common import Violation
    found = matched_pairs()
    for sig, msg, hist in found:
        res.add(Violation(sig, msg, {"config": "matched-pairs", "history": hist}))
    res.coverage["matched_pair_sequences"] = 21
    res.coverage["rule"] += "; plus 8/33/40/130 unnamed saves outstanding at once and unwound (plain and inside current_transform())"
    res.coverage["rule"] += "; plus properly nested save/restore pairs whose names may be read as 'no name' (None, '', blanks, a real name): a restore brings back the state of its matching save"
    return res


def replay(body):
    if body["replay"].get("config") == "matched-pairs":
        return {"violations": [[sig, msg] for sig, msg, h in matched_pairs() if h == body["replay"]["history"]]}
    if body["replay"].get("config") == "deep-nesting":
        return {"violations": [[sig, msg] for sig, msg, h in deep_nesting() if h == body["replay"]["history"]]}
    label = body["replay"]["config"]
    for l, system, _, _ in systems("thorough") + systems("quick"):
        if l == label:
            return replay_history(system, body)
    raise SystemExit(f"unknown config {label}")
