"""C09 - Comment text can never change what the machine executes (E3)."""

import itertools

from ..common import Result, Violation, pmap, digest
from ..harness import Sut, poke_formatter
from ..oracles import lex

CORE = ["a", " ", "\n", "\r", "\r\n", ";", "(", ")", "]", "*/", "*", "/", "G1 X9", "M3 S1", '"']
TOKENS = CORE + ["é", "{}", "%s", "'", ">", "}", "#", "//", "[", "/*"]
# single texts outside the token grammar: long ones, exotic separators, format-string look-alikes, escapes
SPECIAL = ["note " * 80, ("Traceback: " + "x" * 300 + ")\nM3 S1"), "a\x0bG1 X9", "a\x0cG1 X9", "a\x85G1 X9", "a\u2028G1 X9", "a\u2029M3 S1", "a\x1cG1 X9",
           "{0}", "{x}", "{", "%(a)s", "%d", "\\", "a\\", "\\n", "$", "\t", "\x00", "a\tG1 X9", " ", "   ", "\n", "\r\n\r\n", ")(", "))", "*/*/", "\ufeffG1 X9",
           # compatibility forms of the delimiters (a normalisation step after sanitising would fold them back to ASCII)
           "done\uff09 M112", "a\ufe5a G1 X9", "a\u207e M3 S1", "a\uff3d G1 X9", "a\uff1e G1 X9", "a\uff02 G1 X9", "a\uff07 G1 X9", "a\uff0a\uff0f M3 S1",
           "a\uff1b G1 X9", "\uff08a", "\u2474 G1 X9", "e\u0301", "\u00e9", "\ufb01"]
# texts that cannot be encoded as UTF-8 (lone surrogates, as os.fsdecode produces them for odd file names): the call may refuse
# them, but whatever it writes must not execute anything else
UNENCODABLE = ["jobs/*\udcff/ M112 /* part.stl", "a*\ud800/ M3 S1", "a\udcff b", "a)\udcff M3 S1", "a\udc0aG1 X9", "\udcff"]
STYLES = [";", "#", "//", "(", "[", "/*", '"', "'", "<"]

ENTRIES = {
    "comment": lambda g, t: g.comment(t),
    "comment-args": lambda g, t: g.comment("note", t, 7),
    "annotate": lambda g, t: g.annotate("key", t),
    "move": lambda g, t: g.move(x=1, comment=t),
    "rapid": lambda g, t: g.rapid(y=2, comment=t),
    "move_absolute": lambda g, t: g.move_absolute(x=3, comment=t),
    "rapid_absolute": lambda g, t: g.rapid_absolute(z=1, comment=t),
    "set_axis": lambda g, t: g.set_axis(x=1, comment=t),
    "auto_home": lambda g, t: g.auto_home(comment=t),
    "probe": lambda g, t: g.probe("towards", z=-1, comment=t),
    "emergency_halt": lambda g, t: g.emergency_halt(t),
    # comment= handed through an interpolated path to every segment
    "trace-arc": lambda g, t: (g.set_resolution(2.0), g.trace.arc((4, 0), (2, 0), comment=t)),
    "trace-polyline": lambda g, t: g.trace.polyline([(1, 0), (1, 1)], comment=t),
    "trace-spline": lambda g, t: (g.set_resolution(2.0), g.trace.spline([(2, 2), (4, 0)], comment=t)),
}


def executable(raw, style):
    return [lex.executable_words(block, style) for block in lex.split_physical_lines(raw)]


def run_case(style, entry, text, first_style=None):
    """`first_style`: the builder is created with that style, emits one comment, and is switched to `style` at run time.
    A first_style of the form ('pad', s) configures the style with surrounding blanks (the setter strips them);
    ('bystander', s) creates a second, differently configured builder after this one and keeps it alive."""
    bystander = None
    if isinstance(first_style, (list, tuple)) and first_style[0] == "pad":
        st = Sut({"comment_symbols": first_style[1], "line_endings": "\n"})
    elif isinstance(first_style, (list, tuple)) and first_style[0] == "bystander":
        st = Sut({"comment_symbols": style, "line_endings": "\n"})
        bystander = Sut({"comment_symbols": first_style[1], "line_endings": "\r\n", "decimal_places": 1, "x_axis": "A"})
        bystander.g.comment("other program")
    elif first_style is None:
        st = Sut({"comment_symbols": style, "line_endings": "\n"})
    else:
        st = Sut({"comment_symbols": first_style, "line_endings": "\n"})
        st.g.comment("warm up")
        st.g.move(x=0, comment="warm up")
        st.g.format.set_comment_symbols(style)
        st.rec.take()
    poke_formatter(st.g.format)
    try:
        ENTRIES[entry](st.g, text)
        exc = None
    except Exception as e:     # noqa: BLE001
        exc = e
    raw = b"".join(st.rec.take()).decode("utf-8")
    return exc, raw


def strings(max_tokens, tokens):
    for n in range(0, max_tokens + 1):
        for combo in itertools.product(tokens, repeat=n):
            yield "".join(combo)


def _work(item):
    style, entry, max_tokens, tokens = item[:4]
    first_style = item[4] if len(item) > 4 else None
    out = []
    exc0, raw0 = run_case(style, entry, "x", first_style)
    base = executable(raw0, style)
    n = 0
    outcomes = set()
    seen = set()
    for text in strings(max_tokens, tokens):
        if text in seen:
            continue
        seen.add(text)
        exc, raw = run_case(style, entry, text, first_style)
        n += 1
        outcomes.add(digest(raw))
        if exc is not None and exc0 is None and text in UNENCODABLE:
            # refused: what was written before the refusal is the beginning of what the innocuous call writes, nothing else
            got = executable(raw, style)
            if got != base[:len(got)]:
                out.append((f"{entry}:executable-words-changed:unencodable", f"style {style!r} text {text!r}: refused with {exc!r}, but wrote {raw!r} which executes {got} (innocuous comment: {base})",
                            {"style": style, "entry": entry, "text": text, "first_style": first_style}))
            continue
        if exc is not None or exc0 is not None:
            if type(exc) is not type(exc0):
                out.append((f"{entry}:raised", f"style {style!r} text {text!r}: raised {exc!r} (innocuous text: {exc0!r})",
                            {"style": style, "entry": entry, "text": text, "first_style": first_style}))
            continue
        got = executable(raw, style)
        if got != base:
            if len(got) != len(base):
                kind = "line-count-changed"
            else:
                kind = "executable-words-changed"
            has_break = any(c in text for c in "\r\n")
            out.append((f"{entry}:{kind}:{'line-break' if has_break else 'delimiter'}" + ((":after-style-switch" if isinstance(first_style, str) else ":" + first_style[0]) if first_style else ""),
                        f"style {style!r}{' (variant ' + repr(first_style) + ')' if first_style else ''} text {text!r}: output {raw!r} executes {got}, with an innocuous comment {base}",
                        {"style": style, "entry": entry, "text": text, "first_style": first_style}))
    return n, out, outcomes


def run(tier, seed):
    res = Result("exploration")
    items = []
    core = CORE
    for style in STYLES:
        for entry in ENTRIES:
            if tier == "quick":
                items.append((style, entry, 2, TOKENS))
                if entry in ("comment", "move", "emergency_halt", "annotate"):
                    items.append((style, entry, 3, core))
            else:
                items.append((style, entry, 3, TOKENS))
                if entry in ("comment", "move", "annotate"):
                    items.append((style, entry, 4, core[:12]))
    for style in STYLES:
        for entry in ENTRIES:
            items.append((style, entry, 1, SPECIAL))
            items.append((style, entry, 1, UNENCODABLE))
    # styles configured with surrounding blanks; a second live builder with another style (and precision, line ending, axis label)
    for style in STYLES:
        if style in ("(", "[", "/*", '"', "<", ";"):
            for pad in (style + " ", " " + style, "\t" + style + "  "):
                for entry in ("comment", "move", "annotate", "emergency_halt"):
                    items.append((style, entry, 2, CORE, ("pad", pad)))
        other = "(" if style != "(" else ";"
        for entry in ("comment", "move", "annotate", "emergency_halt", "auto_home"):
            items.append((style, entry, 2, CORE, ("bystander", other)))
    # run-time style switches on a live builder (non-initial formatter state): every ordered pair of styles
    for a in STYLES:
        for b in STYLES:
            if a != b:
                for entry in (("comment", "move", "annotate", "emergency_halt") if tier == "quick" else list(ENTRIES)):
                    items.append((b, entry, 2, CORE, a))
    results = pmap(_work, items, chunksize=1)
    total, outcomes = 0, set()
    for n, out, oc in results:
        total += n
        outcomes |= oc
        for sig, msg, rp in out:
            res.add(Violation(sig, msg, rp))
    res.coverage = {
        "evaluations": total,
        "distinct_nontrivial": len(outcomes),
        "rule": (f"every string of <= 2-4 tokens (bounds per entry point in 'spaces') from {TOKENS!r} x comment styles {STYLES!r} x "
                 f"entry points {list(ENTRIES)}, plus {len(SPECIAL)} single texts outside the grammar (long texts, VT/FF/NEL/LS/PS/FS, format-string look-alikes, escapes, NUL, BOM) for every style and entry point; each call is made on a fresh real GCodeBuilder and its raw output, split on CR LF / LF / CR and "
                 "stripped of comments by an independent lexer under the configured style, must execute the same words on the same number of lines "
                 "as the same call with the text 'x'; distinct = distinct raw outputs"),
        "exhaustive": True,
        "exhaustive_note": "complete enumeration of the stated string grammar; other strings are not covered",
        "spaces": [{"style": i[0], "entry": i[1], "max_tokens": i[2], "alphabet_size": len(i[3]), "switched_from": (i[4] if len(i) > 4 else None)} for i in items][:12] + [{"total_spaces": len(items)}],
        "samples": [{"style": "(", "entry": "move", "text": "a)\nM3 S1"}, {"style": ";", "entry": "comment", "text": "\r\nG1 X9"}],
    }
    res.assumptions = ["a controller ends a block at CR LF, LF or CR; a delimited comment ends at the first closing delimiter",
                       "comment style '{' is excluded (every comment raises inside str.format today: outside the statement)"]
    return res


def replay(body):
    rp = body["replay"]
    fs = rp.get("first_style")
    exc, raw = run_case(rp["style"], rp["entry"], rp["text"], fs)
    exc0, raw0 = run_case(rp["style"], rp["entry"], "x", fs)
    got, base = executable(raw, rp["style"]), executable(raw0, rp["style"])
    v = [] if (got == base and type(exc) is type(exc0)) else [("differs", f"{raw!r} executes {got} vs {base}")]
    return {"output": raw, "executes": got, "baseline": base, "exception": repr(exc), "violations": v}
