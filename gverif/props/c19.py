"""C19 - Heightmaps interpolate faithfully and sample paths within tolerance (E3 grid, exploration).

Exhaustive enumeration of a stated finite grid of maps x scales x tolerances x
query points x lines, every element run through the real RasterHeightMap /
SparseHeightMap / FlatHeightMap (public constructor, set_scale, set_tolerance,
get_depth_at, sample_path only). The oracle below is the property statement and
nothing else; where the statement is silent the oracle is silent (see
NOT_DEMANDED at the end of the file, copied into the evidence).

How the "every dropped sample" clause is checked (the statement talks about the
samples sample_path *drops*, which by definition are not in its output):

* raster: the same map is asked for the same line with tolerance 0.0 (allowed by
  set_tolerance). The property itself says a dropped sample differs from the
  previously kept one by *less than the tolerance*; at tolerance 0 no such sample
  can exist, so that output is the complete unfiltered walk. I do not
  reconstruct the Bresenham walk myself because the contract does not say which
  pixels a rasterised line visits (tie rules differ between variants); the
  walk is however checked against the geometric clauses (ends, half a pixel from
  the line, order, z = get_depth_at) like every other output.
* sparse: the sampling step of SparseHeightMap depends on the tolerance and
  tolerance 0 is not usable (division by zero), so the sample *positions* for
  (line, tolerance) are obtained from the public sample_path of an auxiliary
  SparseHeightMap with the same tolerance whose heights form a very steep plane
  that is not level along any lattice direction: all its samples differ from
  every other one by far more than the tolerance, so the property forbids
  dropping any of them and its output lists every sample position. Four such
  planes are asked (rising / falling, above / below zero) and the union of their
  positions is used, so that a filter that is wrong on one kind of ground cannot
  thin out the reference positions too.
  Heights of the real map at those positions are taken from get_depth_at.
  Assumption (stated in the evidence): sample positions depend on the line and
  the tolerance, not on the stored heights. The assumption is policed: a kept
  point of the real run that is not among those positions is reported as a
  HARNESS error (exit 2), never as a violation.
"""

import itertools
import math

import numpy

from ..common import Result, Violation, import_gscrib, pmap, digest

import_gscrib()
from gscrib.heightmaps import RasterHeightMap, SparseHeightMap, FlatHeightMap   # noqa: E402

SCALES = (2.5, 1.0)       # a scale other than 1 first, then back to 1: what an earlier set_scale did must not linger
TOLS_BINARY = (0.378,)     # pixel centres of a binary image are 0 or scale (>= 1): every tolerance in (0, 1) filters identically
TOLS_FAMILY = (0.05, 0.378, 1.0)
GEOM_EPS = 1e-9
MAX_PER_SIG = 2            # violations kept per signature and batch (the CLI writes one replay per signature)

NOT_DEMANDED = [
    "raster heights between pixel centres (the statement fixes no interpolant; spline overshoot is legal) - observed only",
    "raster queries with -1 < x < 0, w-1 < x < w (same for y): whether a pixel covers [c,c+1), [c-.5,c+.5) or only its centre is not stated; "
    "zero is demanded only for x <= -1, x >= width, y <= -1, y >= height, which are outside under every reading",
    "which pixels a rasterised line visits; only: within half a pixel of the segment between the returned end pixels, in order",
    "how a non-integer line end is rounded to a pixel: any pixel within half a pixel per axis is accepted (integer ends must be hit exactly)",
    "sparse queries exactly on the hull boundary that are not stored points: a value in [min,max]*scale or 0 is accepted (round-off decides inside/outside)",
    "that kept samples differ by at least the tolerance (the statement only restricts what is dropped); duplicated points in a path",
    "spacing / number of samples along a sparse path",
]


# --------------------------------------------------------------------------
# collector
# --------------------------------------------------------------------------

class Collector:
    def __init__(self):
        self.stats = {}
        self.viols = {}
        self.harness = []
        self.outcomes = set()
        self.samples = []

    def count(self, key, n=1):
        self.stats[key] = self.stats.get(key, 0) + n

    def violation(self, sig, msg, replay):
        self.count("violations_raw")
        lst = self.viols.setdefault(sig, [])
        if len(lst) < MAX_PER_SIG:
            lst.append((sig, msg, replay))

    def harness_error(self, msg):
        if len(self.harness) < 5:
            self.harness.append(msg)

    def pack(self):
        return self.stats, [v for lst in self.viols.values() for v in lst], self.harness, self.outcomes, self.samples


def _r(v):
    """Canonical number for outcome digests."""
    try:
        v = float(v)
    except Exception:
        return repr(v)
    if v != v:
        return "nan"
    r = round(v, 7)
    return 0.0 if r == 0 else r


# --------------------------------------------------------------------------
# geometry (plain Python floats, nothing from gscrib)
# --------------------------------------------------------------------------

def seg_param_dist(p, a, b):
    """(unclamped projection parameter, distance to the closed segment a-b)."""
    ax, ay = a
    bx, by = b
    px, py = p
    dx, dy = bx - ax, by - ay
    L2 = dx * dx + dy * dy
    if L2 == 0.0:
        return 0.0, math.hypot(px - ax, py - ay)
    t = ((px - ax) * dx + (py - ay) * dy) / L2
    tc = min(1.0, max(0.0, t))
    return t, math.hypot(px - (ax + tc * dx), py - (ay + tc * dy))


def as_points(out):
    """Returned path -> list of (x, y, z) floats, or None if it is not an (n>=1, 3) array."""
    try:
        arr = numpy.asarray(out, dtype=float)
    except Exception:
        return None
    if arr.ndim != 2 or arr.shape[1] != 3 or arr.shape[0] < 1:
        return None
    return [(float(a), float(b), float(c)) for a, b, c in arr]


def end_ok(got, want, half):
    """Line end clause for one coordinate: exact for sparse maps and for integer pixel coordinates,
    otherwise any pixel within half a pixel (the contract does not name a rounding rule)."""
    if half == 0.0 or float(want).is_integer():
        return abs(got - want) <= GEOM_EPS
    return abs(got - want) <= half + GEOM_EPS


def check_path_geometry(pts, line, half, depth_of):
    """Clauses: starts/ends at the requested ends, on the line, in order, z = the map's own height.
    Returns list of (clause, message)."""
    out = []
    x1, y1, x2, y2 = line
    f, l = pts[0], pts[-1]
    ends_fine = True
    if not (end_ok(f[0], x1, half) and end_ok(f[1], y1, half)):
        out.append(("path-does-not-start-at-line-start", f"first point {f[:2]} for line start {(x1, y1)}"))
        ends_fine = False
    if not (end_ok(l[0], x2, half) and end_ok(l[1], y2, half)):
        out.append(("path-does-not-end-at-line-end", f"last point {l[:2]} (of {len(pts)}) for line end {(x2, y2)}"))
        ends_fine = False
    if ends_fine:
        # raster: reference segment joins the returned end pixels (each already within half a pixel of the
        # requested end), every Bresenham-like walk stays within half a pixel of it; sparse: the requested segment.
        a, b = ((f[0], f[1]), (l[0], l[1])) if half else ((x1, y1), (x2, y2))
        prev_t = None
        for i, p in enumerate(pts):
            t, d = seg_param_dist((p[0], p[1]), a, b)
            if d > half + GEOM_EPS:
                out.append(("path-point-off-the-line", f"point #{i} {p[:2]} is {d:.6g} from the segment {a}-{b} (allowed {half})"))
                break
            if prev_t is not None and t < prev_t - GEOM_EPS:
                out.append(("path-points-out-of-order", f"point #{i} {p[:2]} lies before point #{i - 1} {pts[i - 1][:2]} along {a}->{b}"))
                break
            prev_t = t
    for i, p in enumerate(pts):
        z = depth_of(p[0], p[1])
        if not (abs(p[2] - z) <= 1e-9 * max(1.0, abs(z))):
            out.append(("path-height-is-not-the-map-height", f"point #{i} {p[:2]} carries z={p[2]!r} but get_depth_at gives {z!r}"))
            break
    return out


def same_xy(a, b):
    return abs(a[0] - b[0]) <= GEOM_EPS and abs(a[1] - b[1]) <= GEOM_EPS


def dedupe(points):
    out = []
    for p in points:
        if not out or not same_xy(out[-1], p):
            out.append((p[0], p[1]))
    return out


def check_drop_rule(samples, kept, tol, depth_of):
    """samples: every unfiltered sample position in walk order; kept: the returned points.
    Returns (status, message, ndropped). status: None fine, 'harness', or 'violation'."""
    idx, i = [], 0
    for k in kept:
        j = i
        while j < len(samples) and not same_xy(samples[j], k):
            j += 1
        if j == len(samples):
            return "harness", f"kept point {k[:2]} is not among the unfiltered samples {samples}", 0
        idx.append(j)
        i = j
    keptset = set(idx)
    last_z = depth_of(*samples[idx[0]])
    ndropped = 0
    for j in range(idx[0] + 1, len(samples)):
        z = depth_of(*samples[j])
        if j in keptset:
            last_z = z
            continue
        ndropped += 1
        if abs(z - last_z) >= tol * (1 + 1e-9) + 1e-12:
            return ("violation",
                    f"sample #{j} {samples[j]} (height {z!r}) was dropped although it differs by {abs(z - last_z):.6g} >= tolerance {tol} "
                    f"from the previously kept height {last_z!r}; kept {[k[:2] for k in kept]} of samples {samples}", ndropped)
    return None, "", ndropped


# --------------------------------------------------------------------------
# raster maps
# --------------------------------------------------------------------------

def poke_invalid(m, scale=None, tol=None):
    """A rejected setter call must not change what the map does afterwards (the last accepted value stays in force).
    If an implementation *accepts* one of these values the accepted value is simply set again, so nothing is assumed."""
    for bad in (-2.0, 0.0):
        if scale is not None:
            try:
                m.set_scale(bad)
            except Exception:                                            # noqa: BLE001 - rejected
                pass
            else:
                m.set_scale(scale)
        if tol is not None and tol > 0:
            try:
                m.set_tolerance(bad)
            except Exception:                                            # noqa: BLE001
                pass
            else:
                m.set_tolerance(tol)


def recheck_after_reconfiguration(col, kind, m, last, half, depth_of, describe, rp):
    """The map was just reconfigured (set_scale / set_tolerance): the path it returns now for the line it sampled last must carry
    the heights it reports now."""
    if last is None:
        return
    col.count("path_calls_after_reconfiguration")
    try:
        pts = as_points(m.sample_path(list(last)))
    except Exception as e:                                           # noqa: BLE001
        col.violation(f"{kind}:sample_path-raised", f"{describe}: sample_path({list(last)}) after reconfiguration raised {e!r}", rp)
        return
    if pts is None:
        col.violation(f"{kind}:malformed-path", f"{describe}: sample_path({list(last)}) after reconfiguration", rp)
        return
    try:
        problems = check_path_geometry(pts, last, half, depth_of)
    except Exception as e:                                           # noqa: BLE001
        problems = [("get_depth_at-raised-on-path-point", repr(e))]
    for clause, msg in problems:
        col.violation(f"{kind}:{clause}:after-reconfiguration", f"{describe}, line {list(last)} sampled again right after reconfiguring the map: {msg}", rp)


def half_lattice(lo, hi):
    n = int(round((hi - lo) * 2))
    return [lo + 0.5 * i for i in range(n + 1)]


def raster_endpoints(w, h, rich):
    pts = [(0.0, 0.0), (w - 1.0, h - 1.0), (w - 1.0, 0.0), (0.5, h - 1.5), (-1.0, 1.0)]
    if rich:
        pts += [(0.0, h - 1.0), (float(w), h - 2.0), (1.5, 0.5)]
    return pts


def raster_lines(w, h, rich):
    e = raster_endpoints(w, h, rich)
    return [(a[0], a[1], b[0], b[1]) for a in e for b in e]


def decode_raster(spec):
    """spec -> (h, w, bits, rows). ('b', mask, bits) is a binary 4x4 image, bit r*4+c set = full white."""
    if spec[0] == "b":
        _, mask, bits = spec
        hot = 255 if bits == 8 else 65535
        rows = tuple(tuple(hot if (mask >> (r * 4 + c)) & 1 else 0 for c in range(4)) for r in range(4))
        return 4, 4, bits, rows, False
    _, bits, rows = spec
    return len(rows), len(rows[0]), bits, rows, True


def load_raster(array, via):
    """via None: the ndarray constructor; 'png' / 'tiff': the image is written to a real file (losslessly, with OpenCV) and loaded
    with RasterHeightMap.from_path."""
    if via is None:
        return RasterHeightMap(array)
    import cv2, tempfile, shutil, os
    d = tempfile.mkdtemp(prefix="gv-c19-")
    try:
        path = os.path.join(d, "map." + via)
        if not cv2.imwrite(path, array):
            raise RuntimeError("cv2.imwrite failed")
        back = cv2.imread(path, cv2.IMREAD_UNCHANGED)
        if back is None or back.dtype != array.dtype or not numpy.array_equal(back, array):
            raise RuntimeError("the image file does not hold the intended pixels (harness)")
        return RasterHeightMap.from_path(path)
    finally:
        shutil.rmtree(d, ignore_errors=True)


def load_sparse(array, via):
    if via is None:
        return SparseHeightMap(array)
    import tempfile, shutil, os
    d = tempfile.mkdtemp(prefix="gv-c19-")
    try:
        path = os.path.join(d, "map." + via)
        sep = "\t" if via == "tsv" else ","
        with open(path, "w") as f:
            for row in array:
                f.write(sep.join(repr(float(v)) for v in row) + "\n")
        return SparseHeightMap.from_path(path)
    finally:
        shutil.rmtree(d, ignore_errors=True)


def check_raster(col, h, w, bits, rows, scales, tols, lines, queries, want_obs=False, via=None):
    vmax = 255.0 if bits == 8 else 65535.0          # documented normalisation: full white = height 1.0
    dtype = numpy.uint8 if bits == 8 else numpy.uint16
    image = [list(r) for r in rows]

    def rp(scale, tol=None, query=None, line=None):
        return {"kind": "raster", "image": image, "dtype": "uint8" if bits == 8 else "uint16", "via": via,
                "scale": scale, "tolerance": tol, "query": query, "line": line}

    m = load_raster(numpy.array(image, dtype=dtype), via)
    outcome = []
    obs = {}
    nontrivial = False
    last_line, prev_scale = None, None
    for scale in scales:
        m.set_scale(scale)
        poke_invalid(m, scale=scale)
        cache = {}

        def depth_of(x, y, _c=cache):
            k = (x, y)
            if k not in _c:
                _c[k] = float(m.get_depth_at(x, y))
            return _c[k]

        if last_line is not None:
            r = rp(scale, tols[-1] if tols else None, line=list(last_line))
            r["prev_scale"] = prev_scale
            recheck_after_reconfiguration(col, "raster", m, last_line, 0.5, depth_of, f"{bits}-bit {h}x{w} image, scale {prev_scale} -> {scale}", r)
        prev_scale = scale

        for (x, y) in queries:
            col.count("depth_queries")
            centre = float(x).is_integer() and float(y).is_integer() and 0 <= x <= w - 1 and 0 <= y <= h - 1
            outside = x <= -1 or x >= w or y <= -1 or y >= h
            try:
                v = depth_of(x, y)
            except Exception as e:                                   # noqa: BLE001
                if centre or outside:
                    col.violation("raster:get_depth_at-raised", f"get_depth_at({x}, {y}) raised {e!r}", rp(scale, query=[x, y]))
                continue
            outcome.append(_r(v))
            if want_obs:
                obs[f"depth@{x},{y}*{scale}"] = v
            if v != 0.0:
                nontrivial = True
            if centre:
                col.count("depth_queries_demanded")
                stored = rows[int(y)][int(x)] / vmax                 # x = column, y = row
                want = scale * stored
                if not abs(v - want) <= scale * (1e-6 * stored + 1e-9):
                    col.violation("raster:wrong-height-at-pixel-centre",
                                  f"{bits}-bit {h}x{w} image, scale {scale}: get_depth_at(x={x}, y={y}) = {v!r}, expected scale*pixel[row {int(y)}][col {int(x)}]/"
                                  f"{int(vmax)} = {want!r}", rp(scale, query=[x, y]))
            elif outside:
                col.count("depth_queries_demanded")
                if not abs(v) <= 1e-12:
                    col.violation("raster:nonzero-outside-the-image",
                                  f"{bits}-bit {h}x{w} image, scale {scale}: get_depth_at(x={x}, y={y}) = {v!r} outside the image, expected 0",
                                  rp(scale, query=[x, y]))
            else:
                col.count("depth_queries_observed_only")

        for line in lines:
            walk = None
            last_line = line
            extra, exact_keep = [], None
            for tol in itertools.chain((0.0,), tuple(tols), extra):
                col.count("path_calls")
                m.set_tolerance(tol)
                poke_invalid(m, tol=tol)
                try:
                    raw = m.sample_path(list(line))
                except Exception as e:                               # noqa: BLE001
                    col.violation("raster:sample_path-raised", f"sample_path({list(line)}) with tolerance {tol} raised {e!r}", rp(scale, tol, line=list(line)))
                    continue
                pts = as_points(raw)
                if pts is None:
                    col.violation("raster:malformed-path", f"sample_path({list(line)}) returned {raw!r}", rp(scale, tol, line=list(line)))
                    continue
                outcome.append(tuple((_r(a), _r(b), _r(c)) for a, b, c in pts))
                if want_obs:
                    obs[f"path{list(line)}*{scale}@tol{tol}"] = [list(p) for p in pts]
                try:
                    problems = check_path_geometry(pts, line, 0.5, depth_of)
                except Exception as e:                               # noqa: BLE001
                    problems = [("get_depth_at-raised-on-path-point", repr(e))]
                for clause, msg in problems:
                    col.violation("raster:" + clause, f"{bits}-bit {h}x{w} image, scale {scale}, tolerance {tol}, line {list(line)}: {msg}",
                                  rp(scale, tol, line=list(line)))
                if tol == 0.0:
                    walk = dedupe(pts) if not problems else None
                    if walk:
                        col.count("unfiltered_samples", len(walk))
                        # one more tolerance taken from the path the map itself returned: exactly the height difference between
                        # its first sample and the first later sample that is not level with it (that sample differs from the
                        # last kept one by exactly the tolerance, which is not "less than the tolerance": it has to be kept)
                        first_up = next((q for q in pts[1:] if q[2] != pts[0][2] and not same_xy(q, pts[0])), None)
                        if first_up is not None and (len(tols) > 1 or want_obs):
                            step = abs(first_up[2] - pts[0][2])
                            if step not in tols:
                                extra.append(step)
                            exact_keep = (step, first_up)
                    continue
                if walk is None or problems:
                    continue                                         # the clause violated above is reported; no reference walk to compare with
                if exact_keep is not None and tol == exact_keep[0] and not any(same_xy(q, exact_keep[1]) for q in pts):
                    col.violation("raster:dropped-sample-differs-by-exactly-the-tolerance",
                                  f"{bits}-bit {h}x{w} image, scale {scale}, line {list(line)}: with the tolerance set to {tol!r} (the height difference the map itself "
                                  f"reports between its first sample {pts[0] if pts else None} and {exact_keep[1]}) that sample was dropped", rp(scale, tol, line=list(line)))
                status, msg, nd = check_drop_rule(walk, pts, tol, depth_of)
                col.count("paths_drop_rule_checked")
                col.count("dropped_samples_checked", nd)
                if nd:
                    col.count("paths_with_dropped_samples")
                if status == "harness":
                    col.harness_error(f"raster {bits}-bit {rows} scale {scale} tol {tol} line {list(line)}: {msg} "
                                      "(the tolerance-0 walk is not a superset of the filtered path: oracle assumption broken)")
                elif status == "violation":
                    col.violation("raster:dropped-sample-differs-by-tolerance-or-more",
                                  f"{bits}-bit {h}x{w} image, scale {scale}, line {list(line)}: {msg}", rp(scale, tol, line=list(line)))
    if nontrivial:
        col.outcomes.add(digest(("raster", bits, rows, outcome)))
    col.count("raster_maps")
    return obs


def _work_raster(batch):
    col = Collector()
    for spec in batch:
        h, w, bits, rows, rich = decode_raster(spec)
        queries = [(x, y) for y in half_lattice(-1.5, h + 0.5) for x in half_lattice(-1.5, w + 0.5)]
        check_raster(col, h, w, bits, rows, SCALES, TOLS_FAMILY if rich else TOLS_BINARY, raster_lines(w, h, rich), queries)
    return col.pack()


def check_sparse_file_points(col, pts3, via):
    """Point lists with coordinates a narrower float type cannot hold exactly: the map loaded from the file returns scale x the
    stored height at exactly the coordinates written in the file."""
    data = [[20.2 + 0.1 * p[0], 40.7 - 0.3 * p[1], float(p[2]) + 0.125] for p in pts3]
    try:
        m = load_sparse(numpy.array(data, dtype=float), via)
    except Exception as e:                                           # noqa: BLE001
        col.violation("sparse:from_path-raised", f"points {data} written as .{via}: from_path raised {e!r}", {"kind": "sparse-file", "points": [list(p) for p in pts3], "via": via})
        return
    for scale in SCALES:
        m.set_scale(scale)
        for x, y, z in data:
            col.count("depth_queries")
            col.count("depth_queries_demanded")
            try:
                v = float(m.get_depth_at(x, y))
            except Exception as e:                                   # noqa: BLE001
                col.violation("sparse:get_depth_at-raised", f"get_depth_at({x}, {y}) raised {e!r}", {"kind": "sparse-file", "points": [list(p) for p in pts3], "via": via})
                continue
            if not abs(v - scale * z) <= 1e-9 * max(1.0, abs(scale * z)):
                col.violation("sparse:wrong-height-at-stored-point:file",
                              f"points {data} written as .{via}, scale {scale}: get_depth_at({x!r}, {y!r}) = {v!r}, expected scale*stored height = {scale * z!r}",
                              {"kind": "sparse-file", "points": [list(p) for p in pts3], "via": via})
    col.count("file_backed_maps")


def _work_files(batch):
    """Maps loaded from real files through from_path (PNG/TIFF images, CSV/TSV point lists)."""
    col = Collector()
    for kind, spec, via in batch:
        if kind == "raster":
            h, w, bits, rows, rich = decode_raster(spec)
            queries = [(x, y) for y in half_lattice(-1.5, h + 0.5) for x in half_lattice(-1.5, w + 0.5)]
            try:
                check_raster(col, h, w, bits, rows, SCALES, TOLS_BINARY, raster_lines(w, h, False)[:6], queries, via=via)
            except Exception as e:                                   # noqa: BLE001
                if "(harness)" in str(e) or "imwrite" in str(e):
                    col.harness_error(f"file-backed raster {via}: {e!r}")
                else:
                    col.violation("raster:from_path-raised", f"{bits}-bit {h}x{w} image written as .{via}: from_path raised {e!r}",
                                  {"kind": "raster", "image": [list(r) for r in rows], "dtype": "uint8" if bits == 8 else "uint16", "via": via,
                                   "scale": 1.0, "tolerance": None, "query": None, "line": None})
            col.count("file_backed_maps")
        elif kind == "sparse-file":
            check_sparse_file_points(col, spec, via)
        else:
            if False not in _SPARSE_LINES:
                _SPARSE_LINES[False] = sparse_lines(False)
            try:
                check_sparse(col, spec, SCALES, _SPARSE_LINES[False][:1], SPARSE_QUERIES, via=via)
            except Exception as e:                                   # noqa: BLE001
                col.violation("sparse:from_path-raised", f"points {spec} written as .{via}: from_path raised {e!r}",
                              {"kind": "sparse", "points": [list(p) for p in spec], "via": via, "scale": 1.0, "tolerance": None, "query": None, "line": None})
            col.count("file_backed_maps")
    return col.pack()


def structured_family(tier):
    """Gradients, shallow ramps (they exercise the drop rule), single hot pixels at each position (they pin
    row/column orientation), hot rows/columns, all-distinct index images; 8- and 16-bit; 4x4, 4x5, 5x4 (+5x5, 4x7, 7x4)."""
    sizes = [(4, 4), (4, 5), (5, 4)]
    if tier == "thorough":
        sizes += [(5, 5), (4, 7), (7, 4)]
    out = []
    for (h, w) in sizes:
        for bits in (8, 16):
            vmax = 255 if bits == 8 else 65535
            mid = 128 if bits == 8 else 32768
            k = 1 if bits == 8 else 257
            imgs = []
            levels = [(0, vmax), (0, mid), (0, 1), (mid, vmax), (mid, 0)] + ([(0, 300)] if bits == 16 else [])
            for bg, hot in levels:
                for r in range(h):
                    for c in range(w):
                        imgs.append([[hot if (rr, cc) == (r, c) else bg for cc in range(w)] for rr in range(h)])
            for r in range(h):
                imgs.append([[vmax if rr == r else 0 for cc in range(w)] for rr in range(h)])
            for c in range(w):
                imgs.append([[vmax if cc == c else 0 for cc in range(w)] for rr in range(h)])
            ramps = {
                "col": lambda r, c: c / (w - 1), "col-rev": lambda r, c: (w - 1 - c) / (w - 1),
                "row": lambda r, c: r / (h - 1), "row-rev": lambda r, c: (h - 1 - r) / (h - 1),
                "diag": lambda r, c: (r + c) / (h + w - 2), "anti": lambda r, c: (r + w - 1 - c) / (h + w - 2),
            }
            for fn in ramps.values():
                imgs.append([[int(round(vmax * fn(r, c))) for c in range(w)] for r in range(h)])
            for delta in (10, 30, 60, 85):
                d = delta * k
                for fn in (lambda r, c: c, lambda r, c: r, lambda r, c: w - 1 - c, lambda r, c: h - 1 - r,
                           lambda r, c: (r + c) / 2.0, lambda r, c: abs(c - 2)):
                    imgs.append([[min(vmax, int(d * fn(r, c))) for c in range(w)] for r in range(h)])
            step = vmax // (h * w - 1)
            imgs.append([[(r * w + c) * step for c in range(w)] for r in range(h)])
            imgs.append([[(c * h + r) * step for c in range(w)] for r in range(h)])
            imgs.append([[vmax] * w for _ in range(h)])
            for im in imgs:
                out.append(("s", bits, tuple(tuple(int(v) for v in row) for row in im)))
    seen, uniq = set(), []
    for s in out:
        if s not in seen:
            seen.add(s)
            uniq.append(s)
    return uniq


def raster_specs(tier):
    specs = []
    for mask in range(1 << 16):
        if tier == "thorough" or bin(mask).count("1") <= 4:
            specs.append(("b", mask, 8))
            specs.append(("b", mask, 16))
    return specs, structured_family(tier)


# --------------------------------------------------------------------------
# sparse maps
# --------------------------------------------------------------------------

LATTICE = [(x, y) for y in range(3) for x in range(3)]
HEIGHTS = (0.0, 1.0, 10.0)
SPARSE_QUERIES = [(0.5 * i - 0.5, 0.5 * j - 0.5) for j in range(7) for i in range(7)]      # 0.5 lattice on [-0.5, 2.5]^2
SPARSE_ENDS = [(0.0, 0.0), (2.0, 2.0), (2.0, 0.0), (0.5, 1.5), (-0.5, 1.0), (2.5, 1.0), (0.0, 2.0), (1.0, 1.0)]
AUX_POINTS = [(-10.0, -10.0), (10.0, -10.0), (-10.0, 10.0), (10.0, 10.0)]
AUX_GAIN = 1.0e6


# lines shorter than the tolerance in force (a short move still starts and ends where it was asked to)
SHORT_LINES = [(0.5, 0.5, 0.7, 0.6), (1.0, 1.0, 1.25, 1.0), (2.0, 0.5, 2.0, 0.25)]
COARSE_SHORT = [(0.0, 0.0, 1.0, 1.0), (2.0, 1.0, 0.5, 1.0), (0.0, 0.0, 2.0, 2.0)]


def sparse_lines(rich):
    """[(tolerance, scales, lines)]. rich: every ordered pair of the 8 end points at 0.378 and six lines at 0.05;
    lean: ten lines at 0.378 and one long line at 0.05 (scale 1 only)."""
    e = SPARSE_ENDS
    if rich:
        coarse = [(a[0], a[1], b[0], b[1]) for a in e for b in e]
        fine = [e[0] + e[1], e[6] + e[2], e[4] + e[5], e[5] + e[4], e[3] + e[2], e[1] + e[0]]
        return [(0.378, SCALES, coarse + SHORT_LINES), (0.05, SCALES, [tuple(x) for x in fine]), (2.0, (1.0,), COARSE_SHORT)]
    coarse = [e[0] + e[1], e[1] + e[0], e[0] + e[2], e[2] + e[3], e[3] + e[0], e[6] + e[2], e[2] + e[6], e[4] + e[5], e[5] + e[4], e[0] + e[0]]
    return [(0.378, SCALES, [tuple(x) for x in coarse] + SHORT_LINES), (0.05, (1.0,), [tuple(e[4] + e[5])]), (2.0, (1.0,), COARSE_SHORT)]


def cross(o, a, b):
    return (a[0] - o[0]) * (b[1] - o[1]) - (a[1] - o[1]) * (b[0] - o[0])


def convex_hull(points):
    """Monotone chain on integer points, counter-clockwise, collinear points removed."""
    pts = sorted(set(points))
    if len(pts) <= 2:
        return pts
    lower, upper = [], []
    for p in pts:
        while len(lower) >= 2 and cross(lower[-2], lower[-1], p) <= 0:
            lower.pop()
        lower.append(p)
    for p in reversed(pts):
        while len(upper) >= 2 and cross(upper[-2], upper[-1], p) <= 0:
            upper.pop()
        upper.append(p)
    return lower[:-1] + upper[:-1]


def classify(hull, q):
    """'in' / 'edge' / 'out' for integer q against a CCW strict hull (exact integer arithmetic)."""
    zero = False
    n = len(hull)
    for i in range(n):
        c = cross(hull[i], hull[(i + 1) % n], q)
        if c < 0:
            return "out"
        if c == 0:
            zero = True
    return "edge" if zero else "in"


_AUX = {}


def aux_positions(line, tol):
    """Unfiltered sample positions for (line, tol), see the module docstring. Returns (positions, error)."""
    key = (tuple(line), tol)
    if key not in _AUX:
        # four steep planes (rising and falling along the line, above and below zero): the property forbids dropping any of their
        # samples, so each of them lists every position; the union is taken so that a filter that wrongly drops samples on, say,
        # falling ground cannot thin out the reference positions as well (positions are merged in the order along the line)
        err, merged = None, {}
        x1, y1, x2, y2 = line
        for sign, offset in ((1.0, 0.0), (-1.0, 0.0), (1.0, 1e7), (-1.0, -1e7)):
            data = numpy.array([(x, y, sign * AUX_GAIN * (x + math.pi * y) + offset) for x, y in AUX_POINTS])
            aux = SparseHeightMap(data)
            aux.set_tolerance(tol)
            pts = as_points(aux.sample_path(list(line)))
            if pts is None:
                err = "auxiliary map returned a malformed path"
                break
            for p in dedupe(pts):
                t = math.hypot(p[0] - x1, p[1] - y1)
                merged.setdefault((round(t, 9)), (p[0], p[1]))
        pts = [merged[k] for k in sorted(merged)] if not err else None
        if pts:
            heights = [AUX_GAIN * (p[0] + math.pi * p[1]) for p in pts]
            for (a, ha), (b, hb) in zip(zip(pts, heights), zip(pts[1:], heights[1:])):
                if not same_xy(a, b) and abs(ha - hb) < 100 * max(tol, 1.0):
                    err = f"auxiliary plane is not steep enough between {a} and {b}"
        _AUX[key] = (pts if pts else None, err)
    return _AUX[key]


def check_sparse(col, pts3, scales, lines_by_tol, queries, want_obs=False, via=None):
    data = [list(map(float, p)) for p in pts3]

    def rp(scale, tol=None, query=None, line=None):
        return {"kind": "sparse", "points": data, "via": via, "scale": scale, "tolerance": tol, "query": query, "line": line}

    stored = {(int(round(2 * p[0])), int(round(2 * p[1]))): float(p[2]) for p in pts3}     # doubled coordinates: integers
    hull = convex_hull(list(stored))
    zmin, zmax = min(stored.values()), max(stored.values())
    m = load_sparse(numpy.array(data, dtype=float), via)
    outcome, obs = [], {}
    nontrivial = zmin != zmax
    last_line, prev_scale, prev_tol = None, None, None
    for scale in scales:
        m.set_scale(scale)
        poke_invalid(m, scale=scale)

        def depth_of(x, y):
            return float(m.get_depth_at(x, y))

        if last_line is not None:
            r = rp(scale, prev_tol, line=list(last_line))
            r["prev_scale"] = prev_scale
            recheck_after_reconfiguration(col, "sparse", m, last_line, 0.0, depth_of, f"points {data}, scale {prev_scale} -> {scale}", r)
        prev_scale = scale

        for (x, y) in queries:
            col.count("depth_queries")
            q2 = (2 * x, 2 * y)
            exact = float(q2[0]).is_integer() and float(q2[1]).is_integer()
            try:
                v = depth_of(x, y)
            except Exception as e:                                   # noqa: BLE001
                col.violation("sparse:get_depth_at-raised", f"get_depth_at({x}, {y}) raised {e!r}", rp(scale, query=[x, y]))
                continue
            outcome.append(_r(v))
            if want_obs:
                obs[f"depth@{x},{y}*{scale}"] = v
            if not exact:
                col.count("depth_queries_observed_only")
                continue
            qi = (int(q2[0]), int(q2[1]))
            eps = 1e-9 * scale * max(1.0, abs(zmax))
            lo, hi = scale * zmin - eps, scale * zmax + eps
            if qi in stored:
                col.count("depth_queries_demanded")
                want = scale * stored[qi]
                if not abs(v - want) <= eps:
                    col.violation("sparse:wrong-height-at-stored-point",
                                  f"points {data}, scale {scale}: get_depth_at({x}, {y}) = {v!r}, expected scale*stored = {want!r}", rp(scale, query=[x, y]))
                continue
            where = classify(hull, qi)
            if where == "in":
                col.count("depth_queries_demanded")
                col.count("sparse_interior_queries")
                if not lo <= v <= hi:
                    col.violation("sparse:interior-value-outside-min-max",
                                  f"points {data}, scale {scale}: get_depth_at({x}, {y}) = {v!r} strictly inside the hull, expected within "
                                  f"[{scale * zmin}, {scale * zmax}]", rp(scale, query=[x, y]))
            elif where == "out":
                col.count("depth_queries_demanded")
                col.count("sparse_exterior_queries")
                if not abs(v) <= 1e-12:
                    col.violation("sparse:nonzero-outside-the-hull",
                                  f"points {data}, scale {scale}: get_depth_at({x}, {y}) = {v!r} outside the convex hull, expected 0", rp(scale, query=[x, y]))
            else:
                col.count("depth_queries_demanded")
                col.count("sparse_boundary_queries")
                if abs(v) <= 1e-12 and not lo <= v <= hi:
                    col.count("sparse_boundary_queries_answered_zero")
                elif not lo <= v <= hi:
                    col.violation("sparse:boundary-value-neither-in-range-nor-zero",
                                  f"points {data}, scale {scale}: get_depth_at({x}, {y}) = {v!r} on the hull boundary, expected within "
                                  f"[{scale * zmin}, {scale * zmax}] (or 0)", rp(scale, query=[x, y]))

        for tol, tscales, lines in lines_by_tol:
            if scale not in tscales:
                continue
            m.set_tolerance(tol)
            poke_invalid(m, tol=tol)
            if last_line is not None and prev_tol != tol:
                r = rp(scale, tol, line=list(last_line))
                r["prev_tol"] = prev_tol
                recheck_after_reconfiguration(col, "sparse", m, last_line, 0.0, depth_of, f"points {data}, scale {scale}, tolerance {prev_tol} -> {tol}", r)
            prev_tol = tol
            for line in lines:
                col.count("path_calls")
                last_line = line
                try:
                    raw = m.sample_path(list(line))
                except Exception as e:                               # noqa: BLE001
                    col.violation("sparse:sample_path-raised", f"sample_path({list(line)}) with tolerance {tol} raised {e!r}", rp(scale, tol, line=list(line)))
                    continue
                pts = as_points(raw)
                if pts is None:
                    col.violation("sparse:malformed-path", f"sample_path({list(line)}) returned {raw!r}", rp(scale, tol, line=list(line)))
                    continue
                outcome.append(tuple((_r(a), _r(b), _r(c)) for a, b, c in pts))
                if want_obs:
                    obs[f"path{list(line)}*{scale}@tol{tol}"] = [list(p) for p in pts]
                zc = {}

                def depth_c(x, y, _c=zc):
                    if (x, y) not in _c:
                        _c[(x, y)] = depth_of(x, y)
                    return _c[(x, y)]

                try:
                    problems = check_path_geometry(pts, line, 0.0, depth_c)
                except Exception as e:                               # noqa: BLE001
                    problems = [("get_depth_at-raised-on-path-point", repr(e))]
                for clause, msg in problems:
                    col.violation("sparse:" + clause, f"points {data}, scale {scale}, tolerance {tol}, line {list(line)}: {msg}", rp(scale, tol, line=list(line)))
                if problems:
                    continue
                samples, err = aux_positions(line, tol)
                if err or not samples:
                    col.harness_error(f"sparse line {list(line)} tol {tol}: {err or 'no auxiliary samples'}")
                    continue
                col.count("unfiltered_samples", len(samples))
                try:
                    status, msg, nd = check_drop_rule(samples, pts, tol, depth_c)
                except Exception as e:                               # noqa: BLE001
                    col.violation("sparse:get_depth_at-raised", f"re-walk of line {list(line)} raised {e!r}", rp(scale, tol, line=list(line)))
                    continue
                col.count("paths_drop_rule_checked")
                col.count("dropped_samples_checked", nd)
                if nd:
                    col.count("paths_with_dropped_samples")
                if status == "harness":
                    col.harness_error(f"sparse {data} scale {scale} tol {tol} line {list(line)}: {msg} (sample positions differ between the auxiliary "
                                      "steep-plane map and this map: oracle assumption broken)")
                elif status == "violation":
                    col.violation("sparse:dropped-sample-differs-by-tolerance-or-more",
                                  f"points {data}, scale {scale}, line {list(line)}: {msg}", rp(scale, tol, line=list(line)))
    if nontrivial:
        col.outcomes.add(digest(("sparse", pts3, outcome)))
    col.count("sparse_maps")
    return obs


_SPARSE_LINES = {}


def _work_sparse(item):
    rich, batch = item
    if rich not in _SPARSE_LINES:
        _SPARSE_LINES[rich] = sparse_lines(rich)
    col = Collector()
    for pts3 in batch:
        check_sparse(col, pts3, SCALES, _SPARSE_LINES[rich], SPARSE_QUERIES)
    return col.pack()


def sparse_specs(tier):
    """Every 4-, 5- and 6-point subset of the 3x3 lattice (none is collinear) with heights from {0,1,10}.
    quick: every height assignment for the 4-point subsets, 9 rotating patterns for the larger ones."""
    out = []
    for k in (4, 5, 6):
        for sub in itertools.combinations(LATTICE, k):
            hull = convex_hull(list(sub))
            if len(hull) < 3:
                continue                                            # collinear (cannot happen for k >= 4 on a 3x3 lattice)
            if k == 4 or tier == "thorough":
                assigns = itertools.product(HEIGHTS, repeat=k)
            else:
                base = (0.0, 1.0, 10.0, 1.0, 0.0, 10.0, 10.0, 0.0, 1.0)
                assigns = sorted({tuple(base[(i + s) % 9] for i in range(k)) for s in range(9)})
            for hs in assigns:
                out.append(tuple((float(p[0]), float(p[1]), h) for p, h in zip(sub, hs)))
    return out


# --------------------------------------------------------------------------
# flat map
# --------------------------------------------------------------------------

def check_flat(col):
    m = FlatHeightMap()
    for (x, y) in SPARSE_QUERIES:
        col.count("depth_queries")
        col.count("depth_queries_demanded")
        v = m.get_depth_at(x, y)
        if v != 0.0:
            col.violation("flat:nonzero-height", f"FlatHeightMap.get_depth_at({x}, {y}) = {v!r}", {"kind": "flat", "query": [x, y], "line": None})
    for a in SPARSE_ENDS:
        for b in SPARSE_ENDS:
            line = (a[0], a[1], b[0], b[1])
            col.count("path_calls")
            pts = as_points(m.sample_path(list(line)))
            if pts is None:
                col.violation("flat:malformed-path", f"sample_path({list(line)})", {"kind": "flat", "query": None, "line": list(line)})
                continue
            for clause, msg in check_path_geometry(pts, line, 0.0, lambda x, y: float(m.get_depth_at(x, y))):
                col.violation("flat:" + clause, f"line {list(line)}: {msg}", {"kind": "flat", "query": None, "line": list(line)})
    # results handed out earlier stay what they were (each call returns its own object)
    first = m.sample_path([0.0, 0.0, 1.0, 1.0])
    keep = [[float(v) for v in p] for p in first]
    try:
        first[0][2] = 5.0                      # the caller edits what it was handed
    except Exception:                          # noqa: BLE001 - immutable results are fine too
        pass
    second = m.sample_path([2.0, 0.5, 0.5, 2.0])
    pts2 = as_points(second)
    if pts2 is None or any(p[2] != 0.0 for p in pts2):
        col.violation("flat:path-height-is-not-the-map-height", f"after the caller edited an earlier result, sample_path returned {second!r}", {"kind": "flat", "query": None, "line": [2.0, 0.5, 0.5, 2.0]})
    again = [[float(v) for v in p] for p in first]
    if [p[:2] for p in again] != [p[:2] for p in keep]:
        col.violation("flat:earlier-result-changed", f"the path returned for [0,0,1,1] turned into {again} after a later call", {"kind": "flat", "query": None, "line": [0.0, 0.0, 1.0, 1.0]})
    col.count("flat_maps")


# --------------------------------------------------------------------------
# entry points
# --------------------------------------------------------------------------

def _batches(seq, n):
    return [seq[i:i + n] for i in range(0, len(seq), n)]


def _rotate(seq, seed):
    if not seq:
        return seq
    k = seed % len(seq)
    return seq[k:] + seq[:k]


def run(tier, seed):
    res = Result("exploration")
    binaries, family = raster_specs(tier)
    sparse = sparse_specs(tier)
    r_items = _rotate(_batches(family, 8) + _batches(binaries, 64), seed)
    # thorough: the 4-point sets get the rich line set, the (9x more numerous) larger sets the lean one
    s_rich = [p for p in sparse if tier == "thorough" and len(p) == 4]
    s_lean = [p for p in sparse if not (tier == "thorough" and len(p) == 4)]
    s_items = _rotate([(True, b) for b in _batches(s_rich, 16)] + [(False, b) for b in _batches(s_lean, 32)], seed)

    total = Collector()
    check_flat(total)
    packs = [total.pack()]
    packs += pmap(_work_raster, r_items, chunksize=1)
    packs += pmap(_work_sparse, s_items, chunksize=1)
    step = 4 if tier == "quick" else 1
    f_items = [("raster", spec, "png") for spec in family[::step]] + [("raster", spec, "tiff") for spec in family[1::2 * step]]
    f_items += [("sparse", p, "csv") for p in sparse[::20 * step]] + [("sparse", p, "tsv") for p in sparse[7::40 * step]]
    f_items += [("sparse-file", p, "csv") for p in sparse[3::20 * step]] + [("sparse-file", p, "tsv") for p in sparse[11::40 * step]]
    packs += pmap(_work_files, _batches(f_items, 8), chunksize=1)

    stats, outcomes = {}, set()
    for st, viols, harness, oc, _ in packs:
        for k, v in st.items():
            stats[k] = stats.get(k, 0) + v
        outcomes |= oc
        for sig, msg, rp in viols:
            res.add(Violation(sig, msg, rp))
        for h in harness:
            if len(res.harness_errors) < 20:
                res.harness_errors.append(h)

    # written-out samples: re-run three concrete cases with observation recording
    samples = []
    c = Collector()
    hot = ((0, 0, 0, 0, 0), (0, 0, 0, 255, 0), (0, 0, 0, 0, 0), (0, 0, 0, 0, 0))
    obs = check_raster(c, 4, 5, 8, hot, (2.5,), (0.378,), [(0.0, 0.0, 4.0, 3.0), (0.0, 1.0, 4.0, 1.0)], [(3.0, 1.0), (1.0, 3.0), (5.0, 1.0), (3.5, 1.5)], True)
    samples.append({"map": "raster 8-bit 4x5", "image": [list(r) for r in hot], "scale": 2.5, "observed": obs})
    ramp = tuple(tuple(85 * cc for cc in range(4)) for _ in range(4))
    obs = check_raster(c, 4, 4, 8, ramp, (1.0,), (0.378,), [(0.0, 0.0, 3.0, 0.0)], [(1.0, 2.0)], True)
    samples.append({"map": "raster 8-bit 4x4 shallow ramp", "image": [list(r) for r in ramp], "scale": 1.0, "observed": obs})
    sp = ((0.0, 0.0, 0.0), (2.0, 0.0, 1.0), (0.0, 2.0, 0.0), (2.0, 2.0, 1.0))
    obs = check_sparse(c, sp, (1.0,), [(0.378, (1.0,), [(0.0, 0.0, 2.0, 2.0)])], [(2.0, 0.0), (1.0, 1.0), (2.5, 1.0)], True)
    samples.append({"map": "sparse", "points": [list(p) for p in sp], "scale": 1.0, "observed": obs,
                    "unfiltered_samples": aux_positions((0.0, 0.0, 2.0, 2.0), 0.378)[0]})

    evaluations = stats.get("depth_queries", 0) + stats.get("path_calls", 0)
    res.coverage = {
        "evaluations": evaluations,
        "distinct_nontrivial": len(outcomes),
        "rule": (
            "RASTER: " + ("every binary 4x4 image (65536)" if tier == "thorough" else "every binary 4x4 image with <= 4 white pixels (2517)")
            + " as uint8 (white=255) and uint16 (white=65535), plus a structured family (single hot pixel at every position over 5-6 level pairs, hot rows/"
            "columns, full gradients in 6 directions, shallow ramps with 4 slopes x 6 shapes, all-distinct index images; uint8 and uint16; sizes 4x4, 4x5, 5x4"
            + (", 5x5, 4x7, 7x4" if tier == "thorough" else "") + "); scales {1, 2.5}; get_depth_at on the whole half-pixel lattice [-1.5, w+0.5] x [-1.5, h+0.5] "
            "(pixel centres, two rings outside, half-pixel points); sample_path for every ordered pair (degenerate included) of 5 end points (3 corners, a "
            "half-pixel point, a point outside; 8 end points for the family) at tolerance 0 (reference walk) and 0.378 for the binary images (their pixel centres are 0 or scale, so every tolerance in (0,1) filters "
            "identically) / {0.05, 0.378, 1.0} for the family. "
            "SPARSE: every 4-, 5-, 6-point subset of the 3x3 lattice with heights from {0,1,10} ("
            + ("all height assignments" if tier == "thorough" else "all assignments for 4 points, 9 rotating patterns for 5 and 6 points")
            + "); scales {1, 2.5}; get_depth_at on the 0.5 lattice of [-0.5,2.5]^2 classified stored/inside/boundary/outside with exact integer arithmetic; "
            "sample_path: lean set = 10 lines between 6 lattice end points (one degenerate, two crossing the hull from outside to outside) at tolerance 0.378, "
            "both scales, plus one 3-unit line at tolerance 0.05, scale 1; rich set = every ordered pair of 8 end points at 0.378 and 6 lines at 0.05, both "
            "scales; " + ("rich for the 4-point sets, lean for the 5- and 6-point sets" if tier == "thorough" else "lean for every set")
            + ". FLAT: same queries, 64 lines. FILES: " + ("every" if tier == "thorough" else "every 4th") + " family image written losslessly as PNG (and every other one of those as TIFF), "
            "point sets written as CSV/TSV, loaded with from_path and put through the same height queries and a reduced line set; point sets with "
            "coordinates of the form 20.2 + 0.1 i (not exactly representable in a narrower float type) written to files and queried at exactly the stored coordinates; "
            "after every set_scale / change of tolerance on a live map the line sampled last is sampled again and must carry the heights the map reports now; "
            "evaluations = get_depth_at queries + sample_path calls issued by the grid (re-evaluations for the oracle not counted). "
            "distinct_nontrivial = distinct (map, full outcome vector) digests over maps that are non-trivial: raster maps returning at least one non-zero "
            "height, sparse maps whose stored heights are not all equal."),
        "exhaustive": True,
        "exhaustive_note": "the stated grid is enumerated completely; images, point sets, scales, tolerances, queries and lines outside it are not covered",
        "samples": samples,
        "raster_binary_maps": len(binaries), "raster_family_maps": len(family), "sparse_point_sets": len(sparse),
        "not_demanded": NOT_DEMANDED,
    }
    for k in sorted(stats):
        res.coverage[k] = stats[k]
    if not stats.get("dropped_samples_checked"):
        res.harness_errors.append("vacuous: no dropped sample was ever checked")
    res.assumptions = [
        "image normalisation as documented ('normalized height map'): uint8 pixel / 255, uint16 pixel / 65535, stored as float32 (1e-6 relative + 1e-9 budget)",
        "raster: sample_path at tolerance 0 returns every sample (follows from the property: nothing can differ by less than 0)",
        "sparse: sample positions depend on the line and the tolerance only; they are read from an auxiliary steep-plane map through the public "
        "sample_path (a mismatch is a harness error, not a violation)",
        "get_depth_at is a pure function of (x, y, scale): values are memoised per map and scale inside the oracle",
    ] + ["not demanded: " + s for s in NOT_DEMANDED]
    return res


def replay(body):
    rp = body["replay"]
    col = Collector()
    obs = {}
    if rp["kind"] == "flat":
        check_flat(col)
    elif rp["kind"] == "sparse-file":
        check_sparse_file_points(col, tuple(tuple(float(v) for v in p) for p in rp["points"]), rp["via"])
    elif rp["kind"] == "raster":
        rows = tuple(tuple(int(v) for v in r) for r in rp["image"])
        bits = 8 if rp["dtype"] == "uint8" else 16
        lines = [tuple(float(v) for v in rp["line"])] if rp.get("line") else []
        queries = [tuple(float(v) for v in rp["query"])] if rp.get("query") else []
        tols = (rp["tolerance"],) if rp.get("tolerance") else ()
        scales = (rp["prev_scale"], rp["scale"]) if rp.get("prev_scale") else (rp["scale"],)
        obs = check_raster(col, len(rows), len(rows[0]), bits, rows, scales, tols, lines, queries, True, via=rp.get("via"))
    else:
        pts3 = tuple(tuple(float(v) for v in p) for p in rp["points"])
        scales = (rp["prev_scale"], rp["scale"]) if rp.get("prev_scale") else (rp["scale"],)
        line = [tuple(float(v) for v in rp["line"])] if rp.get("line") else None
        lines = [(rp["tolerance"], scales, line)] if line else []
        if line and rp.get("prev_tol") is not None:
            lines = [(rp["prev_tol"], scales, line), (rp["tolerance"], scales, [])]
        queries = [tuple(float(v) for v in rp["query"])] if rp.get("query") else []
        obs = check_sparse(col, pts3, scales, lines, queries, True, via=rp.get("via"))
    _, viols, harness, _, _ = col.pack()
    return {"observed": obs, "violations": [[sig, msg] for sig, msg, _ in viols], "harness_errors": harness}
