"""C18 - Device reports are parsed into the readings the caller asks for (E3)."""

import itertools

from ..common import Result, Violation, import_gscrib, pmap, digest, debug_logging

import_gscrib()
from gscrib.writers.printrun_writer import PrintrunWriter   # noqa: E402

VALUES = ["0.00", "-1.50", "12.25", "0.3937", "-0.0", "100", "7", "-250.125", "0.001", "-0.11815"]      # 4 decimals: Grbl reporting in inches
LETTERS = ("X", "Y", "Z", "E", "T", "B", "F", "S", "A", "C")


def new_writer():
    import signal
    real = signal.signal
    try:
        signal.signal = lambda *a, **k: None       # may be constructed in a worker process / non-main thread
        w = PrintrunWriter("serial", "localhost", "/dev/null-gverif", 115200)
    finally:
        signal.signal = real
    dev = w._create_device()          # the printcore whose public receive callback the writer registers
    return w, dev.recvcb


# ---- report generators: (text, expected readings) -------------------------

def marlin_position(order, vals, count_vals, sep=" ", prefix=""):
    fields = [f"{k}:{vals[k]}" for k in order]
    text = prefix + sep.join(fields) + " Count " + " ".join(f"{k}:{count_vals[k]}" for k in ("X", "Y", "Z"))
    return text, {k: float(vals[k]) for k in order}


def marlin_temperature(t, tt, b, bt, lead_ok, tail, t0):
    parts = []
    if lead_ok:
        parts.append("ok")
    parts.append(f"T:{t} /{tt}")
    parts.append(f"B:{b} /{bt}")
    if t0:
        parts.append(f"T0:{t0} /{tt}")
    if tail:
        parts.append("@:0 B@:0")
    return " ".join(parts), {"T": float(t), "B": float(b)}


def grbl_status(state, pos_key, pos, fs, others):
    fields = [f"{pos_key}:{','.join(pos)}"]
    exp = {"X": float(pos[0]), "Y": float(pos[1]), "Z": float(pos[2])}
    if fs is not None:
        fields.append(f"FS:{fs[0]},{fs[1]}")
        exp["F"], exp["S"] = float(fs[0]), float(fs[1])
    return fields, others, exp, state


def probe_report(pos, ok):
    return f"[PRB:{','.join(pos)}:{ok}]", {"X": float(pos[0]), "Y": float(pos[1]), "Z": float(pos[2])}


def single_reports(tier):
    """Yield (family, text, expected)."""
    vs = VALUES if tier == "thorough" else VALUES[:6]
    # Marlin position: all 24 field orders x value assignments
    assigns = list(itertools.permutations(vs, 4))
    if tier == "quick":
        assigns = assigns[::7]
    for order in itertools.permutations(("X", "Y", "Z", "E")):
        for a in assigns:
            vals = dict(zip(("X", "Y", "Z", "E"), a))
            cv = {"X": "800", "Y": "-120", "Z": "4900"}
            yield "marlin-position", *marlin_position(order, vals, cv)
    # Marlin temperature
    for t, b in itertools.permutations(vs, 2):
        for lead_ok in (False, True):
            for tail in (False, True):
                for t0 in (None, "33.3"):
                    yield "marlin-temperature", *marlin_temperature(t, "210.0", b, "60.0", lead_ok, tail, t0)
    # Grbl status: position key x FS x decoys in every order
    decoys = ["Bf:15,128", "Ov:100,99,98", "WCO:5.000,6.000,7.000", "Ln:99"]
    triples = list(itertools.permutations(vs, 3))
    if tier == "quick":
        triples = triples[::5]
    states = ["Idle", "Run", "Hold:0", "Jog", "Alarm", "Door:1", "Check", "Home", "Sleep"]
    for si, key in enumerate(("MPos", "WPos")):
        for ti, pos in enumerate(triples):
            for fs in (None, ("500", "8000"), ("0", "0"), ("900.5", "7500.0"), ("0.25", "12000.25")):
                fields, _, exp, _ = grbl_status("Idle", key, pos, fs, None)
                for k in (0, 2):
                    for dperm in itertools.permutations(decoys, k):
                        allf = fields + list(dperm)
                        perms = itertools.permutations(allf) if len(allf) <= 3 else [allf, allf[::-1], allf[1:] + allf[:1]]
                        for p in perms:
                            yield "grbl-status", "<Idle|" + "|".join(p) + ">", exp
                # every machine state Grbl reports (the state word is not a reading and not an error reply)
                if ti % 7 == 0 or tier == "thorough":
                    for state in states:
                        yield "grbl-status", f"<{state}|" + "|".join(fields) + "|Pn:XZ>", exp
    for pos in triples:
        for ok in (0, 1):
            yield "grbl-probe", *probe_report(pos, ok)


PRIOR = "X:91 Y:92 Z:93 E:94 T:95 B:96 F:97 S:98 A:99.5 C:-99.5"
PRIOR_EXP = {"X": 91.0, "Y": 92.0, "Z": 93.0, "E": 94.0, "T": 95.0, "B": 96.0, "F": 97.0, "S": 98.0, "A": 99.5, "C": -99.5}


PENDING = {"after-alarm": "ALARM:1", "after-error": "error:9", "after-Error": "Error:Printer halted. kill() called!", "after-bang": "!!"}


def check_report(text, expected, with_prior, wrap=None):
    if wrap == "debug-logging":
        with debug_logging():
            return check_report(text, expected, with_prior, None)
    return _check_report(text, expected, with_prior, wrap)


def _check_report(text, expected, with_prior, wrap=None):
    """wrap: how the line arrives from printcore's reader ('crlf': with its CR LF terminator, 'space': Marlin's leading blank)."""
    w, cb = new_writer()
    model = {}
    if with_prior:
        cb(PRIOR)
        model.update(PRIOR_EXP)
    if wrap in PENDING:
        cb(PENDING[wrap])                 # an unsolicited alarm / error reply is pending when the report arrives
        wrap = None
    cb(text + "\r\n" if wrap == "crlf" else (" " + text + "\n" if wrap == "space" else text))
    model.update(expected)
    problems = []
    for k in LETTERS:
        want = model.get(k)
        for name in (k, k.lower()):
            got = w.get_parameter(name)
            if want is None:
                if got is not None:
                    problems.append(("unreported-letter-set", f"{text!r}: get_parameter({name!r}) = {got!r} but the letter was never reported"))
            elif got is None or float(got) != want:
                kind = "not-parsed" if (got is None or (with_prior and k in expected and float(got) == PRIOR_EXP[k])) else \
                    ("earlier-reading-lost" if k not in expected else "wrong-value")
                problems.append((kind, f"{text!r} (prior report: {with_prior}): get_parameter({name!r}) = {got!r}, expected {want}"))
    return problems


def _work_single(item):
    fam, text, exp = item
    out = []
    for with_prior, wrap in ((False, None), (True, None), (True, "crlf"), (False, "space"), (True, "after-alarm"), (False, "after-error"),
                             (True, "after-Error"), (False, "after-bang"), (True, "debug-logging")):
        if wrap == "space" and text.startswith(("ok", "<", "[")):
            continue
        for sig, msg in check_report(text, exp, with_prior, wrap):
            lead = "leading-ok" if text.startswith("ok") else "plain"
            if wrap in PENDING or wrap == "debug-logging":
                lead += ":" + wrap
            out.append((f"{fam}:{lead}:{sig}", msg, {"reports": ([PRIOR] if with_prior else []) + ([PENDING[wrap]] if wrap in PENDING else []) + [text],
                                                     "with_prior": with_prior, "wrap": wrap}))
    return out


BASIS = [
    ("X:1.00 Y:2.00 Z:3.00 E:4.00 Count X:80 Y:160 Z:1200", {"X": 1.0, "Y": 2.0, "Z": 3.0, "E": 4.0}),
    ("Z:0.001 E:-4.5 Y:-1.50 X:0.00 Count X:0 Y:-120 Z:1", {"E": -4.5, "Z": 0.001, "Y": -1.5, "X": 0.0}),
    ("T:210.5 /210.0 B:60.1 /60.0 @:0 B@:0", {"T": 210.5, "B": 60.1}),
    ("ok T:25.0 /0.0 B:24.0 /0.0", {"T": 25.0, "B": 24.0}),
    ("T:180.25 /200.0", {"T": 180.25}),
    ("<Idle|MPos:5.000,6.000,-7.000|FS:500,8000|WCO:0.000,0.000,0.000>", {"X": 5.0, "Y": 6.0, "Z": -7.0, "F": 500.0, "S": 8000.0}),
    ("<Run|WPos:-1.500,0.000,12.250|Bf:15,128>", {"X": -1.5, "Y": 0.0, "Z": 12.25}),
    ("<Run|MPos:4.000,5.000,6.000|WPos:14.000,15.000,16.000|FS:300,1000>", {"X": 4.0, "Y": 5.0, "Z": 6.0, "F": 300.0, "S": 1000.0}),
    ("<Jog|MPos:3.000,2.000,1.000|FS:120.5,9000.75>", {"X": 3.0, "Y": 2.0, "Z": 1.0, "F": 120.5, "S": 9000.75}),
    ("<Alarm|FS:0,0|MPos:0.000,0.000,0.000|Pn:X>", {"F": 0.0, "S": 0.0, "X": 0.0, "Y": 0.0, "Z": 0.0}),
    ("[PRB:1.000,2.000,-3.500:1]", {"X": 1.0, "Y": 2.0, "Z": -3.5}),
    ("[PRB:0.000,0.000,0.000:0]", {"X": 0.0, "Y": 0.0, "Z": 0.0}),
    ("echo:busy: processing", {}),
    ("X:9.5", {"X": 9.5}),
    # lines that are not reports: no reading may change, and later reports still count
    ("ALARM:1", {}),
    ("error:9", {}),
    ("Error:Printer halted. kill() called!", {}),
    ("!!", {}),
    ("ok", {}),
    ("start", {}),
    ("[MSG:Reset to continue]", {}),
    # reports with one field that cannot be read (line noise, a three-member FS field): nothing is demanded about the letters they
    # mention ("?"), but the next well-formed report counts in full
    ("X:4.00 Y:5.0.0 Z:6.00 E:0.00 Count X:320 Y:400 Z:2400", {"?": "XYZE"}),
    ("<Idle|MPos:1.000,2.000,3.000|FS:500,8000,7990>", {"?": "XYZFS"}),
]
UNKNOWN = object()


def _work_hist(idx):
    out = []
    w, cb = new_writer()
    model = {}
    states = []
    for i in idx:
        text, exp = BASIS[i]
        cb(text)
        if "?" in exp:
            model.update({k: UNKNOWN for k in exp["?"]})
        else:
            model.update(exp)
        for k in LETTERS:
            got, want = w.get_parameter(k), model.get(k)
            if want is UNKNOWN:
                continue
            if (want is None) != (got is None) or (want is not None and float(got) != want):
                out.append(("history:" + ("not-parsed" if got is None else "wrong-value"),
                            f"after reports {[BASIS[j][0] for j in idx]}: {k} = {got!r}, expected {want}",
                            {"reports": [BASIS[j][0] for j in idx]}))
                return out, states
        states.append(tuple(sorted((k, (v if v is not UNKNOWN else "?")) for k, v in model.items())))
    return out, states


def _work_stack(item):
    """A report that arrives while the connection is being established (the answer to the probing command), through the real
    printcore + PrintrunWriter stack under the deterministic scheduler of C15/C16: the readings must be there after connect()."""
    from . import c16
    from .. import engine_sched as ES
    cfg, bound = item
    c16.install_line_points()
    found, n = [], [0]

    def run_one(prefix):
        ex, marks, leaked = c16.run_execution(cfg, prefix)
        n[0] += 1
        bad = False
        got = marks.get("readings_after_connect")
        if got is not None and ex.S.status == "done" and "connect_exc" not in marks:
            for name, want in (("T", 21.5), ("B", 22.25)):
                if got.get(name) != want:
                    bad = True
                    if not found:
                        found.append(("report-during-connect:not-parsed", f"the device answered the probing G4 P0 with 'ok T:21.5 /0.0 B:22.25 /0.0' "
                                      f"(greeting {cfg['greeting']!r}); after connect() get_parameter({name!r}) = {got.get(name)!r}", {"stack": cfg, "prefix": list(prefix)}))
        return ex.S.trace, bad
    ES.explore(run_one, bound, max_executions=3000)
    return found, n[0]


def stack_items(tier):
    out = []
    for greeting in (None, "start"):
        for eager in (False, True):
            cfg = {"statements": ["M105"], "behaviours": ["ok"], "regime": "Q", "greeting": greeting, "eager": eager, "line_points": True, "hs_report": True}
            out.append((cfg, 0))
            if not eager:
                out.append(({**cfg, "line_points": False}, 1 if tier == "quick" else 2))
    return out


def run(tier, seed):
    res = Result("exploration")
    nstack = 0
    for found, n in pmap(_work_stack, stack_items(tier), chunksize=1):
        nstack += n
        for sig, msg, rp in found:
            res.add(Violation(sig, msg, rp))
    singles = list(single_reports(tier))
    results = pmap(_work_single, singles, chunksize=200)
    for out in results:
        for sig, msg, rp in out:
            res.add(Violation(sig, msg, rp))
    depth = 3 if tier == "quick" else 4
    hists = [h for d in range(1, depth + 1) for h in itertools.product(range(len(BASIS)), repeat=d)]
    hres = pmap(_work_hist, hists, chunksize=200)
    states = set()
    for out, sts in hres:
        states.update(sts)
        for sig, msg, rp in out:
            res.add(Violation(sig, msg, rp))
    fams = {}
    for f, _, _ in singles:
        fams[f] = fams.get(f, 0) + 1
    res.coverage = {
        "evaluations": 9 * len(singles) + len(hists) + nstack,
        "stack_executions": nstack,
        "distinct_nontrivial": len({t for _, t, _ in singles}) + len(states),
        "rule": ("reports generated from structured fields so the expected readings are known without parsing: Marlin position (X,Y,Z,E in all 24 orders + "
                 "Count block with other values), Marlin temperature (with/without leading ok, @ tail, T0 decoy), Grbl status (MPos|WPos, FS, multi-letter "
                 "decoys in every order), [PRB:..]; values from a list incl. -0.0, 0.001, integers; each report is delivered to the receive callback the writer "
                 "registers on printcore, on a fresh writer and after a prior report that set every letter, with CR LF / leading blank, and while an unsolicited ALARM:, error:, Error: "
                 "or !! line is pending, and with the library's loggers switched to DEBUG; plus every sequence of <= "
                 f"{depth} lines from a {len(BASIS)}-line basis (12 reports + 7 lines that are not reports: alarm, errors, ok, start, [MSG:..]) against a dict model; distinct = distinct report texts + distinct model states; "
                 "plus executions of the real printcore + PrintrunWriter stack (scheduler of C15/C16, default schedule and one/two deviations) in which the "
                 "device answers the probing command with a report: the readings must be available after connect()"),
        "exhaustive": True,
        "exhaustive_note": "complete enumeration of the stated generator space; other report syntaxes are not covered",
        "families": fams, "histories": len(hists), "history_states": len(states),
        "samples": [{"report": singles[0][1], "expected": singles[0][2]}, {"report": singles[len(singles) // 2][1], "expected": singles[len(singles) // 2][2]},
                    {"report": singles[-1][1], "expected": singles[-1][2]}],
    }
    res.assumptions = ["not demanded: leading '+', exponents, position reports with a leading ok",
                       "the callback is obtained from the printcore object the writer creates (recvcb)"]
    return res


def replay(body):
    if "stack" in body["replay"]:
        from . import c16
        c16.install_line_points()
        ex, marks, _ = c16.run_execution(body["replay"]["stack"], body["replay"]["prefix"])
        got = marks.get("readings_after_connect")
        return {"readings_after_connect": got, "status": ex.S.status,
                "violations": [] if got == {"T": 21.5, "B": 22.25} else [["report-during-connect:not-parsed", str(got)]]}
    w, cb = new_writer()
    for r in body["replay"]["reports"]:
        cb(r)
    readings = {k: w.get_parameter(k) for k in LETTERS}
    # re-evaluate through the oracle when the report is one of the generated ones
    problems = []
    reports = body["replay"]["reports"]
    for fam, text, exp in single_reports("thorough"):
        if text == reports[-1]:
            problems = check_report(text, exp, body["replay"].get("with_prior", len(reports) > 1), body["replay"].get("wrap"))
            break
    else:
        idx = [next(i for i, b in enumerate(BASIS) if b[0] == r) for r in reports if any(b[0] == r for b in BASIS)]
        if len(idx) == len(reports):
            problems = _work_hist(tuple(idx))[0]
    return {"readings": readings, "violations": problems}
