"""C06 - The tool and coolant can always be switched off (E1, to closure)."""

from ._base import BuilderSystem, run_configs, replay_history
from ..common import rf

MSG = "spindle jam 42"
LONG = "Traceback (most recent call last): " + "tool holder temperature sensor 7 reads 412 K; " * 12 + "ünïcode ∅ end"


def carries(line, msg):
    """The comment line carries the message: its words, in order (delimiters inside the text may have been neutralised)."""
    import re
    have = iter(re.findall(r"\w+", line))
    return all(any(w == h for h in have) for w in re.findall(r"\w+", msg))


class C06System(BuilderSystem):
    def __init__(self, label, bounds, power_values, feed=1000, temp=50, tool_no=2):
        self.label = label
        self.bounds = bounds          # list of (name, min, max)
        self.pv = power_values        # in-range tool powers to use
        self.feedv, self.temp, self.tool_no = feed, temp, tool_no
        self.cfg = {}

    def setup(self, st):
        for name, lo, hi in self.bounds:
            st.g.set_bounds(name, lo, hi)

    def ops(self, st):
        p1, p2 = self.pv
        return [
            ["tool_off"], ["power_off"], ["coolant_off"],
            ["emergency_halt", [MSG]], ["emergency_halt", [MSG, True]],
            ["emergency_halt", [""]], ["emergency_halt", ["first line\nsecond line", True]], ["emergency_halt", ["   "]], ["emergency_halt", [LONG]], ["emergency_halt", ["Spindle stalled\rM03 S20000\r\nM08"]],
            ["tool_on", ["clockwise", p1]], ["tool_on", ["counter", p2]],
            ["power_on", ["constant", p2]], ["power_on", ["dynamic", p1]],
            ["coolant_on", ["mist"]], ["coolant_on", ["flood"]],
            ["set_tool_power", [p2]], ["move", [], {"x": 1, "S": p1, "F": self.feedv}], ["rapid", [], {"x": 0, "S": p2}],
            ["tool_change", ["manual", self.tool_no]],
            ["set_bed_temperature", [self.temp]], ["set_hotend_temperature", [self.temp]],
            ["set_chamber_temperature", [self.temp]],
            ["set_length_units", ["in"]], ["set_length_units", ["mm"]],
            ["pause"], ["halt", ["wait-for-bed"], {"S": self.temp}], ["stop", [True]],
            ["set_feed_rate", [self.feedv]],
            ["auto_home"], ["probe", ["towards"], {"z": -1}],          # afterwards some axis position is unknown
        ]

    SHUTDOWNS = (["tool_off"], ["power_off"], ["coolant_off"], ["emergency_halt", [MSG]])

    probe_all = False

    def step(self, st, op, probe=True):
        before = None if self.probe_all else self.canon(st)
        problems = self._step(st, op)
        # quick tier: only behind transitions that the canonical form cannot see (the search would not look behind them otherwise)
        probe = probe and (self.probe_all or (self.canon(st) == before and not st.last_rejected))
        if probe and not problems and op[0] not in ("tool_off", "power_off", "coolant_off", "emergency_halt") and st.copyable:
            # "from every state the builder can reach": the shutdown calls are also tried right behind every single transition, on a
            # copy - two states that look alike through the canonical form may still differ in something it cannot see
            scratch = st.snapshot()
            for sd in self.SHUTDOWNS:            # one after the other on one copy: each of them has to work from wherever it is
                for sig, msg in self._step(scratch, sd):
                    problems.append((sig + ":right-after-" + op[0], msg + f" [tried right after {op}]"))
                if problems:
                    break
        return problems

    def _step(self, st, op):
        problems = []
        exc, chunks = self.apply(st, op)
        if op[0] == "format.set_comment_symbols" and exc is None:
            st.style = op[1][0]
        self.feed(st, chunks, problems)
        name = op[0]
        s = st.g.state
        codes = [i["codes"] for i in st.last_infos]
        if name in ("tool_off", "power_off", "coolant_off", "emergency_halt"):
            if exc is not None:
                problems.append((f"{name}-raised", f"{name} raised {exc!r} (tool_active={s.is_tool_active}, coolant_active={s.is_coolant_active}, tool-power bounds={s.get_bounds('tool-power')}); emitted {st.last_lines}"))
            else:
                if name in ("tool_off", "power_off"):
                    want = [["M5"]]
                elif name == "coolant_off":
                    want = [["M9"]]
                else:
                    want = [["M5"], ["M9"], [], ["M30" if len(op[1]) > 1 and op[1][1] else "M0"]]
                if codes != want:
                    problems.append((f"{name}-wrong-output", f"{name} emitted {st.last_lines}, expected codes {want}"))
                elif name == "emergency_halt":
                    msg = op[1][0]
                    if "\n" not in msg and msg.strip() and not carries(st.last_lines[2], msg):
                        problems.append(("emergency-message-missing", f"third line {st.last_lines[2]!r} lacks the message"))
                    if not st.last_lines[2].lstrip().startswith(getattr(st, "style", None) or self.style):
                        problems.append(("emergency-message-not-comment", f"third line {st.last_lines[2]!r} is not a comment"))
                    if st.last_infos[2]["others"] or st.last_infos[2]["codes"]:
                        problems.append(("emergency-message-not-comment", f"third line {st.last_lines[2]!r} has executable words"))
                if name in ("tool_off", "power_off", "emergency_halt") and s.is_tool_active:
                    problems.append((f"{name}-tool-still-active", f"is_tool_active still True after {name}"))
                if name in ("coolant_off", "emergency_halt") and s.is_coolant_active:
                    problems.append((f"{name}-coolant-still-active", f"is_coolant_active still True after {name}"))
        return problems

    def canon(self, st):
        s, m = st.g.state, st.machine
        return (s.is_tool_active, s.is_coolant_active, str(s.spin_mode), str(s.power_mode), str(s.coolant_mode),
                s.tool_number, rf(s.tool_power), str(s.halt_mode), str(s.length_units), rf(s.feed_rate),
                rf(s.target_bed_temperature), rf(s.target_hotend_temperature), rf(s.target_chamber_temperature),
                m.tool_on, m.coolant)

    def outcome(self, st):
        return (tuple(tuple(i["codes"]) for i in st.last_infos), type(st.last_exc).__name__ if st.last_exc else None)


class C06LiveBounds(C06System):
    replay_only = True

    """Bounds are (re)configured while the program is being built: ranges that exclude the power the tool is running at, the
    feed rate in effect or the temperature targets already set."""

    RANGES = [("tool-power", 10, 100), ("tool-power", 2000, 3000), ("tool-power", 0, 5000),
              ("feed-rate", 2000, 3000), ("bed-temperature", 80, 90), ("tool-number", 5, 9)]

    def ops(self, st):
        ops = [o for o in super().ops(st) if o[0] not in ("set_length_units", "set_chamber_temperature", "set_hotend_temperature", "pause", "stop", "halt")
               and o[:2] not in (["emergency_halt", [""]], ["emergency_halt", ["   "]], ["emergency_halt", ["first line\nsecond line", True]])]
        ops += [["tool_on", ["clockwise", 50]], ["power_on", ["constant", 2500]], ["set_tool_power", [50]]]
        ops += [["set_bounds", list(r)] for r in self.RANGES]
        # the comment style is changed on the live formatter as well (the long message contains brackets)
        ops += [["format.set_comment_symbols", ["("]], ["format.set_comment_symbols", [";"]], ["emergency_halt", [LONG]]]
        return ops

    def canon(self, st):
        s = st.g.state
        return super().canon(st) + tuple(repr(s.get_bounds(n)) for n in ("tool-power", "feed-rate", "bed-temperature", "tool-number")) + (getattr(st, "style", ";"),)


class WriteOnlySink:
    """An output object that can be written to and nothing else (an adapter around a queue or a widget)."""

    def __init__(self):
        self.chunks = []

    def write(self, data):
        self.chunks.append(data)
        return len(data)


def systems(tier):
    box = ("axes", (0, 0, 0), (10, 10, 10))
    cfgs = [
        ("no-bounds", [], (1000, 0)),
        ("power-10-100", [("tool-power", 10, 100)], (100, 10)),
        ("power-0.5-1", [("tool-power", 0.5, 1)], (1, 0.5)),
    ]
    if tier == "thorough":
        cfgs += [
            ("power-0-100", [("tool-power", 0, 100)], (100, 0)),
            ("power-neg", [("tool-power", -5, -1)], (-1, -5)),
            ("feed-100-7000", [("feed-rate", 100, 7000)], (1000, 0)),
            ("axes-box", [box], (1000, 0)),
            ("tool-number-1-4", [("tool-number", 1, 4)], (1000, 0)),
            ("bed-40-60", [("bed-temperature", 40, 60)], (1000, 0)),
            ("hotend-40-60", [("hotend-temperature", 40, 60)], (1000, 0)),
            ("chamber-40-60", [("chamber-temperature", 40, 60)], (1000, 0)),
            ("all-bounds", [("tool-power", 10, 100), ("feed-rate", 100, 7000), box, ("tool-number", 1, 4),
                            ("bed-temperature", 40, 60), ("hotend-temperature", 40, 60), ("chamber-temperature", 40, 60)], (100, 10)),
        ]
    out = [(label, C06System(label, b, pv), 60, None) for label, b, pv in cfgs]
    if tier == "thorough":
        for _, system, _, _ in out:
            system.probe_all = True
    for style in ("(", "/*"):
        # other comment styles: every shutdown line carries a comment
        system = C06System(f"comments-{style}", [("tool-power", 10, 100)], (100, 10))
        system.cfg, system.style = {"comment_symbols": style}, style
        out.append((f"comments-{style}", system, 4 if tier == "quick" else 60, None))
    system = C06System("write-only-output", [("tool-power", 10, 100)], (100, 10))
    system.cfg = {"output": WriteOnlySink()}
    out.append(("write-only-output", system, 3 if tier == "quick" else 60, None))
    out.append(("bounds-set-at-run-time", C06LiveBounds("bounds-set-at-run-time", [], (1000, 2500)), 7 if tier == "thorough" else 4, None))
    return out


RULE = ("BFS to closure, per bounds configuration, over tool_on/power_on/coolant_on/set_tool_power/move(S)/tool_change/temperatures/"
        "units/halts plus the four shutdown calls on the real GCodeBuilder; from every reached state each shutdown call must return "
        "normally, emit exactly M05 / M09 / (M05, M09, comment with the message, M00|M30) and leave the activity flags false; "
        "distinct = distinct canonical GState modal fields + interpreter tool/coolant state")
ASSUMPTIONS = ["values for the 'on' operations are chosen inside the configured ranges so that states with the tool running are reachable",
               "bounds configurations: none, each property alone, tool-power ranges including ones that exclude zero, all together, and "
               "bounds (re)configured by set_bounds calls inside the history (ranges excluding the values currently in effect)"]


def run(tier, seed):
    return run_configs("model_checking", systems(tier), tier, seed, RULE, ASSUMPTIONS)


def replay(body):
    label = body["replay"]["config"]
    for l, system, _, _ in systems("thorough"):
        if l == label:
            return replay_history(system, body)
    raise SystemExit(f"unknown config {label}")
