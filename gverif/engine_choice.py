"""E3 - choice-tree enumeration.  Harness code calls ch.choose(n) wherever the
environment or an input grammar has n alternatives; explore() runs the harness
once per leaf of the resulting tree (depth-first, stateless: every execution
starts from scratch and replays its prefix).  Optional deviation bound: choice
0 is the default, any other choice costs one deviation."""


class Chooser:
    def __init__(self, prefix):
        self.prefix = prefix
        self.trace = []      # (choice, arity)

    def choose(self, n, label=None):
        i = len(self.trace)
        if i < len(self.prefix):
            c = self.prefix[i]
            if c >= n:
                raise RuntimeError(f"replay divergence at point {i}: choice {c} of {n}")
        else:
            c = 0
        self.trace.append((c, n))
        return c

    @property
    def choices(self):
        return [c for c, _ in self.trace]


def explore(run, max_deviations=None, max_executions=None):
    """Yields (choices, result) for every leaf. `run(ch)` must be deterministic."""
    stack = [[]]
    n = 0
    while stack:
        prefix = stack.pop()
        ch = Chooser(prefix)
        result = run(ch)
        n += 1
        yield ch.choices, result
        if max_executions and n >= max_executions:
            return
        trace = ch.trace
        dev = sum(1 for c, _ in trace[:len(prefix)] if c != 0)
        for i in range(len(trace) - 1, len(prefix) - 1, -1):
            if max_deviations is not None and dev + 1 > max_deviations:
                continue
            c, arity = trace[i]
            for alt in range(arity - 1, 0, -1):
                stack.append([x for x, _ in trace[:i]] + [alt])
