"""E2 - deterministic scheduler for the real printcore / PrintrunWriter threads.

Real OS threads, one baton: exactly one controlled thread runs at a time; at every scheduling
point (every shim call and, optionally, every source line touching shared attributes) the
scheduler chooses who runs next.  Choices follow a recorded prefix, then the default (choice 0).
Exploration = depth-first enumeration of all choice sequences with at most `bound` non-default
choices (deviations), CHESS style.  The environment (the fake device delivering one pending
firmware reply) is one more option at every point, so latency is a scheduling choice too.
"""

import ast
import os
import queue as _queue
import sys
import threading as _th
import types

_TOOL = 3   # sys.monitoring tool id


class SchedAbort(BaseException):
    pass


class TS:
    """Controlled thread state."""

    def __init__(self, sched, tid, name, fn):
        self.sched, self.tid, self.name, self.fn = sched, tid, name, fn
        self.sem = _th.Semaphore(0)
        self.status = "new"       # new | run | blocked | spin | done
        self.pred = None
        self.spin_at = -1
        self.ident = None
        self.os_thread = None
        self.label = ""
        self.exc = None
        self.shim = None
        self.last_run = 0
        self.timed = False
        self.expired = False


class Sched:
    def __init__(self, prefix=(), eager_env=False, horizon=6000, record_points=False):
        self.prefix = list(prefix)
        self.eager_env = eager_env
        self.horizon = horizon
        self.threads = []
        self.current = None
        self.progress = 0
        self.trace = []            # (choice, arity, running_in_options)
        self.steps = 0
        self.status = "running"    # running | done | deadlock | livelock | horizon | divergence
        self.aborting = False
        self.done_evt = _th.Event()
        self.env_steps = []        # callables: () -> list of (label, fn) enabled environment steps
        self.timeouts_fired = 0    # timed waits that were made to expire (always a non-default choice unless nothing else can run)
        self.idle = 0
        self.vclock = 0.0
        self.record_points = record_points
        self.points = []
        self.lock = _th.Lock()

    # ---- thread management ------------------------------------------------
    def spawn(self, fn, name):
        t = TS(self, len(self.threads), name, fn)
        self.threads.append(t)

        def runner():
            t.ident = _th.get_ident()
            t.sem.acquire()
            try:
                if not self.aborting:
                    fn()
            except SchedAbort:
                pass
            except BaseException as e:   # noqa: BLE001
                t.exc = e
            finally:
                t.status = "done"
                self.progress += 1
                self._handoff_from_finished(t)
        t.os_thread = _th.Thread(target=runner, name=f"gv-{name}", daemon=True)
        t.os_thread.start()
        return t

    def me(self):
        cur = self.current
        if cur is None or cur.ident != _th.get_ident():
            return None
        return cur

    # ---- options -----------------------------------------------------------
    def _options(self, me):
        runnable, spinners = [], []
        for t in self.threads:
            if t.status in ("new", "run"):
                runnable.append(t)
            elif t.status == "blocked":
                if t.pred():
                    runnable.append(t)
            elif t.status == "spin":
                (runnable if self.progress > t.spin_at else spinners).append(t)
        if me is not None and me in runnable:
            runnable.remove(me)
            runnable.insert(0, me)
        env = []
        for src in self.env_steps:
            env += src()
        opts = ([("env", e) for e in env] + [("thread", t) for t in runnable]) if self.eager_env else \
               ([("thread", t) for t in runnable] + [("env", e) for e in env])
        # a wait with a time-out may expire: never the default while anything else can happen
        for t in self.threads:
            if t.status == "blocked" and t.timed and not t.pred():
                opts.append(("timeout", t))
        if not opts:
            # only polling loops are left: wake them in least-recently-run order (fair), so that a flag
            # set by plain assignment (not a shim operation) is eventually noticed by whoever polls it
            spinners.sort(key=lambda t: (t.last_run, t.tid))
            opts = [("spinner", t) for t in spinners]
        return opts

    def _choose(self, opts, me):
        n = len(opts)
        if n == 1:
            return 0
        i = len(self.trace)
        if i < len(self.prefix):
            c = self.prefix[i]
            if c >= n:
                self.status = "divergence"
                raise SchedAbort()
        else:
            c = 0
        running_first = (opts[0][0] == "thread" and opts[0][1] is me)
        self.trace.append((c, n, running_first))
        return c

    def _next(self, me):
        """Decide who runs next; executes environment steps inline. Returns the TS to run or None."""
        while True:
            self.steps += 1
            if self.steps > self.horizon:
                self.status = "horizon"
                return None
            opts = self._options(me)
            if not opts:
                if all(t.status == "done" for t in self.threads):
                    self.status = "done"
                else:
                    self.status = "deadlock"
                return None
            c = self._choose(opts, me)
            kind, what = opts[c]
            if kind == "env":
                label, fn = what
                fn()
                self.progress += 1
                self.idle = 0
                if self.record_points:
                    self.points.append(("env", label))
                continue
            if kind == "timeout":
                what.expired = True
                what.timed = False
                real = what.pred
                what.pred = lambda: True
                self.timeouts_fired += 1
                self.progress += 1
                if self.record_points:
                    self.points.append(("timeout", what.name))
                continue
            if kind == "spinner":
                self.idle += 1
                if self.idle > 3 * len(self.threads) + 6:
                    self.status = "livelock"
                    return None
            else:
                self.idle = 0
            what.last_run = self.steps
            return what

    # ---- the scheduling point ------------------------------------------------
    def point(self, label, spin=False, pred=None, effect=False, timed=False):
        """Scheduling point, taken *before* the operation it announces.  `effect` marks operations that can
        change what a polling loop is waiting for (device traffic, queue/event operations, thread start/exit):
        only those re-enable spinners.  Plain source lines, sleeps and read time-outs are not effects, so
        two polling loops cannot keep each other (and the harness) busy forever."""
        me = self.me()
        if me is None:
            return          # not a controlled thread (or not holding the baton): ignore
        if self.aborting:
            raise SchedAbort()
        me.label = label
        if effect:
            self.progress += 1
        me.expired = False
        if pred is not None:
            if pred():
                me.status = "run"
            else:
                me.status, me.pred, me.timed = "blocked", pred, timed
        elif spin:
            me.status, me.spin_at = "spin", self.progress
        else:
            me.status = "run"
        if self.record_points:
            self.points.append((me.name, label))
        try:
            nxt = self._next(me)
        except SchedAbort:
            self._abort()
            raise
        if nxt is None:
            self._abort()
            raise SchedAbort()
        if nxt is not me:
            self.current = nxt
            nxt.sem.release()
            me.sem.acquire()
            if self.aborting:
                raise SchedAbort()
        me.status = "run"

    def _handoff_from_finished(self, t):
        if self.aborting:
            self._check_all_done()
            return
        try:
            nxt = self._next(None)
        except SchedAbort:
            self._abort()
            return
        if nxt is None:
            if self.status == "done":
                self.done_evt.set()
            else:
                self._abort()
            return
        self.current = nxt
        nxt.sem.release()

    def _abort(self):
        if self.aborting:
            return
        self.aborting = True
        for t in self.threads:
            if t.status != "done":
                t.sem.release()
        self._check_all_done()

    def _check_all_done(self):
        self.done_evt.set()

    # ---- run ---------------------------------------------------------------
    def run(self, main_fn):
        t0 = self.spawn(main_fn, "harness")
        self.current = t0
        t0.status = "run"
        t0.sem.release()
        self.done_evt.wait(30)
        # give aborted threads a moment to unwind
        for t in self.threads:
            t.os_thread.join(5.0 if self.aborting else 10.0)
        leaked = [t.name for t in self.threads if t.os_thread.is_alive()]
        if not self.done_evt.is_set() and self.status == "running":
            self.status = "stuck"
        return leaked

    # ---- virtual time --------------------------------------------------------
    def now(self):
        self.vclock += 0.001
        return self.vclock


# ---------------------------------------------------------------------------
# Shims (constructed per execution, bound to one Sched)
# ---------------------------------------------------------------------------

def make_shims(S):
    class ShimThread:
        def __init__(self, group=None, target=None, name=None, args=(), kwargs=None, daemon=None):
            self._target, self._args, self._kwargs = target, args, kwargs or {}
            self.name = name or "thread"
            self._ts = None
            self.daemon = daemon

        def start(self):
            S.point(f"start:{self.name}", effect=True)
            self._ts = S.spawn(lambda: self._target(*self._args, **self._kwargs), self.name)
            self._ts.shim = self

        def join(self, timeout=None):
            ts = self._ts
            if ts is None:
                raise RuntimeError("cannot join thread before it is started")
            S.point(f"join:{self.name}", pred=lambda: ts.status == "done")

        def is_alive(self):
            return self._ts is not None and self._ts.status != "done"

        def __repr__(self):
            return f"<ShimThread {self.name}>"

    class MainThreadShim:
        name = "harness"

    main_shim = MainThreadShim()

    def current_thread():
        me = S.me()
        if me is None or me.shim is None:
            return main_shim
        return me.shim

    class ShimLock:
        def __init__(self):
            self.owner = None

        def acquire(self, blocking=True, timeout=-1):
            while True:
                S.point("lock.acquire", pred=lambda: self.owner is None)
                # the point precedes the operation: someone else may have taken the lock before we resumed
                if self.owner is None:
                    self.owner = S.me() or True
                    return True

        def release(self):
            self.owner = None
            S.point("lock.release")

        def __enter__(self):
            self.acquire()
            return self

        def __exit__(self, *a):
            self.release()

        def locked(self):
            return self.owner is not None

    class ShimEvent:
        def __init__(self):
            self.flag = False

        def set(self):
            S.point("event.set", effect=True)
            self.flag = True

        def clear(self):
            S.point("event.clear", effect=True)
            self.flag = False

        def is_set(self):
            return self.flag

        def wait(self, timeout=None):
            S.point("event.wait", pred=lambda: self.flag, timed=timeout is not None)
            me = S.me()
            if me is not None and me.expired and not self.flag:
                me.expired = False
                return False
            return True

    class ShimQueue:
        def __init__(self, maxsize=0):
            self.items = []

        def put_nowait(self, item):
            S.point("queue.put", effect=True)
            self.items.append(item)

        put = put_nowait

        def get_nowait(self):
            S.point("queue.get_nowait")
            if not self.items:
                raise _queue.Empty()
            S.progress += 1            # only a successful removal is an effect (polling an empty queue is not)
            return self.items.pop(0)

        def get(self, block=True, timeout=None):
            S.point("queue.get")
            if self.items:
                S.progress += 1
                return self.items.pop(0)
            if not block:
                raise _queue.Empty()
            # an empty queue with a timeout is a polling loop: yield as a spinner, then time out
            S.point("queue.get:empty", spin=True)
            if self.items:
                S.progress += 1
                return self.items.pop(0)
            raise _queue.Empty()

        def empty(self):
            return not self.items

        def task_done(self):
            pass

        def qsize(self):
            return len(self.items)

    def sleep(t):
        S.point("sleep", spin=True)

    threading_ns = types.SimpleNamespace(Thread=ShimThread, Lock=ShimLock, RLock=ShimLock, Event=ShimEvent,
                                         current_thread=current_thread, get_ident=_th.get_ident)
    time_ns = types.SimpleNamespace(sleep=sleep, time=S.now, monotonic=S.now)
    return types.SimpleNamespace(threading=threading_ns, time=time_ns, Queue=ShimQueue, Lock=ShimLock, Event=ShimEvent)


# ---------------------------------------------------------------------------
# Line-level scheduling points through sys.monitoring
# ---------------------------------------------------------------------------

_ACTIVE = {"sched": None, "lines": {}}


def shared_attr_lines(path, attrs):
    """Line numbers of `path` whose AST reads or writes self.<attr> for attr in attrs."""
    tree = ast.parse(open(path, encoding="utf-8").read())
    lines = set()
    for node in ast.walk(tree):
        if isinstance(node, ast.Attribute) and node.attr in attrs:
            lines.add(node.lineno)
    return lines


def _line_cb(code, lineno):
    S = _ACTIVE["sched"]
    if S is None:
        return
    wanted = _ACTIVE["lines"].get(code.co_filename)
    if wanted is None or lineno not in wanted:
        return
    if S.me() is None or S.aborting:
        return
    S.point(f"L{lineno}")


def install_line_points(modules_attrs):
    """modules_attrs: list of (module, set of attribute names). Enables LINE events on every function
    of those modules; returns the number of instrumented lines."""
    mon = sys.monitoring
    try:
        mon.use_tool_id(_TOOL, "gverif")
    except ValueError:
        pass
    mon.register_callback(_TOOL, mon.events.LINE, _line_cb)
    total = 0
    for mod, attrs in modules_attrs:
        path = mod.__file__
        wanted = shared_attr_lines(path, attrs)
        _ACTIVE["lines"][path] = wanted
        total += len(wanted)
        for code in _code_objects(mod):
            mon.set_local_events(_TOOL, code, mon.events.LINE)
    return total


def _code_objects(mod):
    seen = set()

    def walk(obj):
        if isinstance(obj, types.FunctionType):
            f = obj
            while hasattr(f, "__wrapped__"):
                walk_code(f.__code__)
                f = f.__wrapped__
            walk_code(f.__code__)
        elif isinstance(obj, type):
            for v in vars(obj).values():
                walk(v)
        elif isinstance(obj, (staticmethod, classmethod)):
            walk(obj.__func__)
        elif isinstance(obj, property):
            for f in (obj.fget, obj.fset, obj.fdel):
                if f:
                    walk(f)

    def walk_code(code):
        if code in seen or code.co_filename != mod.__file__:
            return
        seen.add(code)
        for c in code.co_consts:
            if isinstance(c, types.CodeType):
                walk_code(c)
    for v in vars(mod).values():
        if getattr(v, "__module__", None) == mod.__name__ or isinstance(v, types.FunctionType):
            walk(v)
    return seen


def set_active(S):
    _ACTIVE["sched"] = S


# ---------------------------------------------------------------------------
# Deviation-bounded DFS
# ---------------------------------------------------------------------------

def explore(run_one, bound, max_executions=None, on_result=None, root=()):
    """run_one(prefix) -> (trace, result). Enumerates every choice sequence that extends `root` with at most
    `bound` deviations in total (deviations inside `root` count). Returns (executions, capped)."""
    stack = [list(root)]
    n = 0
    capped = False
    while stack:
        prefix = stack.pop()
        trace, failed = run_one(prefix)
        n += 1
        if on_result:
            on_result(prefix, trace, failed)
        if max_executions and n >= max_executions:
            capped = bool(stack)
            break
        dev = sum(1 for c in prefix if c != 0)
        if dev >= bound or failed:
            continue        # a failing execution is reported, not refined: its deviations would only repeat the failure
        for i in range(len(trace) - 1, len(prefix) - 1, -1):
            c, arity, _ = trace[i]
            for alt in range(arity - 1, 0, -1):
                stack.append([x for x, _, _ in trace[:i]] + [alt])
    return n, capped
