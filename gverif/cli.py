"""python -m gverif check <ID> [--tier quick|thorough] | replay <path> | selftest"""

import argparse
import hashlib
import importlib
import json
import os
import sys
import traceback

from .common import pin_environment, VERIF, jsonable, Timer, Result


def _evidence_path(pid):
    return os.path.join(os.environ.get("GVERIF_EVIDENCE_DIR") or os.path.join(VERIF, "evidence"), f"{pid}.json")


def _write_json(path, obj):
    os.makedirs(os.path.dirname(path), exist_ok=True)
    tmp = path + ".tmp"
    with open(tmp, "w", encoding="utf-8") as f:
        json.dump(jsonable(obj), f, indent=1, sort_keys=True)
        f.write("\n")
    os.replace(tmp, path)


def cmd_check(pid, tier, seed):
    from . import findings
    timer = Timer()
    mod = importlib.import_module(f"gverif.props.{pid.lower()}")
    try:
        res = mod.run(tier=tier, seed=seed)
    except Exception:                              # harness failure, not a verdict
        traceback.print_exc()
        print(f"HARNESS-ERROR property={pid}")
        return 2
    if res.harness_errors:
        for e in res.harness_errors[:20]:
            print(f"HARNESS-ERROR property={pid} {e}")
        return 2

    known = findings.load_open()
    by_sig = {}
    for v in res.violations:
        by_sig.setdefault(v.sig, []).append(v)
    new_sigs, known_sigs = [], []
    for sig in by_sig:
        (known_sigs if (pid, sig) in known else new_sigs).append(sig)

    for sig in sorted(known_sigs):
        vs = by_sig[sig]
        print(f"KNOWN-FINDING: property={pid} sig={sig} occurrences={len(vs)} {known[(pid, sig)]}")

    rc = 0
    replays = []
    for sig in sorted(new_sigs)[:12]:
        vs = by_sig[sig]
        v = min(vs, key=lambda x: len(json.dumps(jsonable(x.replay))))
        body = {"property": pid, "sig": sig, "msg": v.msg, "tier": tier, "seed": seed,
                "replay": v.replay, "occurrences": len(vs)}
        h = hashlib.sha1(json.dumps(jsonable(body), sort_keys=True).encode()).hexdigest()[:10]
        path = os.path.join(os.environ.get("GVERIF_REPLAY_DIR") or os.path.join(VERIF, "replays"), f"{pid}-{h}.json")
        _write_json(path, body)
        replays.append(path)
        print(f"VIOLATION property={pid} replay={path}")
        print(f"  sig={sig} occurrences={len(vs)}: {v.msg}"[:1500])
        rc = 1
    if len(new_sigs) > 12:
        print(f"  ... {len(new_sigs) - 12} further violation signatures not written out")

    cov = dict(res.coverage)
    cov.setdefault("samples", [])
    ev = {
        "property_id": pid,
        "tier": tier,
        "seed": seed,
        "level": res.level,
        "coverage": cov,
        "assumptions": res.assumptions,
        "wall_s": timer.s(),
        "violations": len(new_sigs),
        "known_findings": sorted(known_sigs),
        "violation_signatures": sorted(new_sigs)[:50],
    }
    _write_json(_evidence_path(pid), ev)
    summary = {k: v for k, v in cov.items() if isinstance(v, (int, float, bool))}
    print(f"property={pid} tier={tier} seed={seed} level={res.level} wall_s={ev['wall_s']} "
          f"violations={len(new_sigs)} known={len(known_sigs)} {summary}")
    return rc


def cmd_replay(path):
    body = json.load(open(path, encoding="utf-8"))
    pid = body["property"]
    mod = importlib.import_module(f"gverif.props.{pid.lower()}")
    out1 = mod.replay(body)
    out2 = mod.replay(body)
    print(json.dumps(jsonable(out1), indent=1))
    if jsonable(out1) != jsonable(out2):
        print("HARNESS-ERROR: replay is not deterministic")
        return 2
    if out1.get("violations"):
        print(f"VIOLATION property={pid} replay={path}")
        return 1
    print("replay: no violation reproduced")
    return 0


def main():
    pin_environment()
    ap = argparse.ArgumentParser(prog="gverif")
    sub = ap.add_subparsers(dest="cmd", required=True)
    c = sub.add_parser("check")
    c.add_argument("pid")
    c.add_argument("--tier", default=os.environ.get("VERIF_TIER", "quick"), choices=["quick", "thorough"])
    r = sub.add_parser("replay")
    r.add_argument("path")
    sub.add_parser("selftest")
    a = ap.parse_args()
    try:
        seed = int(os.environ.get("VERIF_SEED", "0"))
    except ValueError:
        seed = 0
    if a.cmd == "check":
        sys.exit(cmd_check(a.pid.upper(), a.tier, seed))
    if a.cmd == "replay":
        sys.exit(cmd_replay(a.path))
    if a.cmd == "selftest":
        from . import selftest
        sys.exit(selftest.main())
