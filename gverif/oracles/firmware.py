"""Firmware models for the bundled sender (independent of gscrib).

LineFirmware: Marlin-style line-number / checksum protocol.
  - expects N<last+1>; `M110 N<k>` sets last = k; a bad checksum, a corrupted transmission or a wrong
    line number is answered with an Error line and `Resend: <last+1>`;
  - dialect "A" (Marlin): the Resend line is followed by `ok`; dialect "B": Resend only; dialect "C": a bare `rs N<n>` line.
  - unnumbered lines are executed and acknowledged with ok.
"""

import re

N_RE = re.compile(r"^N(-?\d+)\s+(.*?)\*(\d+)\s*$")


def xor_checksum(text):
    """XOR of the bytes on the wire (the firmware sees bytes, not code points)."""
    c = 0
    for b in text.encode("utf-8"):
        c ^= b
    return c


class LineFirmware:
    def __init__(self, dialect="A", corrupt=(), greeting=None):
        self.dialect = dialect
        self.corrupt = set(corrupt)      # indices (0-based) of job-line transmissions (N>=0) that arrive damaged
        self.greeting = greeting
        self.last = -1                   # last accepted line number
        self.accepted = []               # commands executed, in order (numbered job lines only)
        self.unnumbered = []
        self.job_tx = 0                  # count of numbered (N>=0) transmissions seen
        self.requests = []               # (wire position, requested line number)
        self.wire = []                   # every received line

    def connect_replies(self):
        return [self.greeting] if self.greeting else []

    def _resend(self, why):
        self.requests.append((len(self.wire), self.last + 1))
        if self.dialect == "C":          # Sprinter / Teacup style: a bare 'rs N<n>' line, nothing else
            return [f"rs N{self.last + 1}"]
        if self.dialect == "D":          # Repetier wording: no blank before the number; followed by ok
            return [f"Error:{why}", f"Resend:{self.last + 1}", "ok"]
        out = [f"Error:{why}, Last Line: {self.last}", f"Resend: {self.last + 1}"]
        if self.dialect == "A":
            out.append("ok")
        return out

    @staticmethod
    def _ok(command):
        # a temperature poll is acknowledged with the readings on the ok line (Marlin / RepRap)
        return "ok T:201.3 /200.0 B:60.1 /60.0" if command.split(";")[0].strip().startswith("M105") else "ok"

    def receive(self, line):
        """line: str without terminator. Returns list of reply lines."""
        self.wire.append(line)
        m = N_RE.match(line)
        if not line.startswith("N"):
            self.unnumbered.append(line)
            return [self._ok(line)]
        if m is None:
            return self._resend("No Checksum with line number")
        k, body, cs = int(m.group(1)), m.group(2), int(m.group(3))
        prefix = f"N{k} {body}"
        damaged = False
        if k >= 0 and "M110" not in body:
            idx = self.job_tx
            self.job_tx += 1
            damaged = idx in self.corrupt
        if damaged or xor_checksum(prefix) != cs:
            return self._resend("checksum mismatch")
        if body.startswith("M110"):
            mm = re.search(r"N(-?\d+)", body)
            self.last = int(mm.group(1)) if mm else k
            return ["ok"]
        if k != self.last + 1:
            return self._resend("Line Number is not Last Line Number+1")
        self.last = k
        self.accepted.append(body)
        return [self._ok(body)]
