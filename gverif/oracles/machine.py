"""Independent motion + modal interpreter for the G-code fragment gscrib
emits.  Pure python, no gscrib import.

Motion part (C01, C03, C04, C10, C11, C12, C20): G0/G1 (G00/G01), G90/G91,
G92, G28, G38.2-5.  Each axis has a coordinate and a `known` flag; axes start
unknown; homing and probing make the mentioned axes unknown (the end position
is decided by the machine, not the program).

Modal part (C02, C06, C07): tool (M03/M04/M05 + S), coolant (M07/M08/M09),
T..M06, F, S by context, units, plane, extrusion/feed modes, temperatures,
halt codes.
"""

AXES = ("X", "Y", "Z")
HALT_CODES = {"M0", "M1", "M2", "M30", "M60", "M109", "M190", "M191", "M400"}
PROBE_CODES = {"G38.2", "G38.3", "G38.4", "G38.5"}


def norm_code(letter, num):
    """'G','01' -> 'G1'; 'G','38.2' -> 'G38.2'; 'M','03' -> 'M3'."""
    if "." in num:
        a, b = num.split(".", 1)
        b = b.rstrip("0")
        a = str(int(a or "0"))
        return f"{letter}{a}.{b}" if b else f"{letter}{a}"
    return f"{letter}{int(num)}"


class Machine:
    def __init__(self, labels=None):
        # labels: mapping emitted label -> canonical axis (for relabelled axes)
        self.labels = {"X": "X", "Y": "Y", "Z": "Z"}
        if labels:
            self.labels = dict(labels)
        self.pos = {a: 0.0 for a in AXES}
        self.known = {a: False for a in AXES}
        self.rel_steps = {a: 0 for a in AXES}   # relative increments since last absolute anchor
        self.relative = False
        self.vertices = []        # (kind, {axis: coord or None}) after each G0/G1
        # modal
        self.tool_on = False
        self.tool_code = None     # 'M3' | 'M4'
        self.tool_power = None    # last S in tool context
        self.coolant = None       # None | 'M7' | 'M8'
        self.tool_number = None
        self.pending_T = None
        self.feed = None
        self.units = None         # 'G20' | 'G21'
        self.plane = None
        self.extrusion = None     # 'M82' | 'M83'
        self.feed_mode = None
        self.temps = {"hotend": None, "bed": None, "chamber": None}
        self.params = {}          # last value of every non-code word on motion / G92 lines
        self.events = []          # interlock-relevant events of the last line
        self.last_motion = None   # dict describing the last motion line

    def clone(self):
        import copy
        return copy.deepcopy(self)

    # ---- feeding -----------------------------------------------------
    def feed_words(self, words):
        """words: list of (LETTERS, numstr). Returns a dict describing the
        line (kind, targets...)."""
        info = {"codes": [], "kind": None, "axes": {}, "others": {}}
        codes = []
        others = []
        for letter, num in words:
            if letter in ("G", "M"):
                codes.append(norm_code(letter, num))
            else:
                others.append((letter, num))
        info["codes"] = codes
        self.events = []
        val = {}
        for letter, num in others:
            val[letter] = float(num)
        info["others"] = dict(val)

        motion = None
        for c in codes:
            if c in ("G0", "G1"):
                motion = c
            elif c in PROBE_CODES:
                motion = c
            elif c == "G92":
                motion = c
            elif c == "G28":
                motion = c
        axis_words = {}
        for lab, ax in self.labels.items():
            if lab in val:
                axis_words[ax] = val[lab]
        info["axes"] = axis_words

        for c in codes:
            if c == "G90":
                self.relative = False
            elif c == "G91":
                self.relative = True
            elif c in ("G20", "G21"):
                self.units = c
            elif c in ("G17", "G18", "G19"):
                self.plane = c
            elif c in ("M82", "M83"):
                self.extrusion = c
            elif c in ("G93", "G94", "G95"):
                self.feed_mode = c
            elif c in ("M3", "M4"):
                self.events.append(("tool_start", c, self.tool_on, self.coolant))
                self.tool_on = True
                self.tool_code = c
                if "S" in val:
                    self.tool_power = val["S"]
            elif c == "M5":
                self.events.append(("tool_stop", c))
                self.tool_on = False
            elif c in ("M7", "M8"):
                self.events.append(("coolant_start", c, self.tool_on, self.coolant))
                self.coolant = c
            elif c == "M9":
                self.events.append(("coolant_stop", c))
                self.coolant = None
            elif c == "M6":
                self.events.append(("tool_change", c, self.tool_on, self.coolant))
                if "T" in val:
                    self.tool_number = int(val["T"])
            elif c in HALT_CODES:
                self.events.append(("halt", c, self.tool_on, self.coolant))
                t = val.get("S", val.get("R"))
                if c == "M109" and t is not None:
                    self.temps["hotend"] = t
                if c == "M190" and t is not None:
                    self.temps["bed"] = t
                if c == "M191" and t is not None:
                    self.temps["chamber"] = t
            elif c == "M104" and "S" in val:
                self.temps["hotend"] = val["S"]
            elif c == "M140" and "S" in val:
                self.temps["bed"] = val["S"]
            elif c == "M141" and "S" in val:
                self.temps["chamber"] = val["S"]

        if not codes:
            # stand-alone words: F.. or S..
            if "F" in val:
                self.feed = val["F"]
            if "S" in val:
                self.tool_power = val["S"]
            info["kind"] = "words"

        if motion in ("G0", "G1") or motion in PROBE_CODES:
            if "F" in val:
                self.feed = val["F"]
            if "S" in val:
                self.tool_power = val["S"]
            for k, v in val.items():
                self.params[k] = v
            before = dict(self.pos), dict(self.known)
            target = {}
            for ax, v in axis_words.items():
                if self.relative:
                    if self.known[ax]:
                        self.pos[ax] = self.pos[ax] + v
                        self.rel_steps[ax] += 1
                    target[ax] = self.pos[ax] if self.known[ax] else None
                else:
                    self.pos[ax] = v
                    self.known[ax] = True
                    self.rel_steps[ax] = 0
                    target[ax] = v
            info["kind"] = "probe" if motion in PROBE_CODES else motion
            info["target"] = target
            info["relative"] = self.relative
            info["before"] = before
            if motion in PROBE_CODES:
                # the machine stops wherever the probe triggers
                for ax in axis_words:
                    self.known[ax] = False
            else:
                self.vertices.append((motion, {a: (self.pos[a] if self.known[a] else None) for a in AXES}))
            self.last_motion = info
        elif motion == "G92":
            for k, v in val.items():
                self.params[k] = v
            for ax, v in axis_words.items():
                self.pos[ax] = v
                self.known[ax] = True
                self.rel_steps[ax] = 0
            info["kind"] = "G92"
        elif motion == "G28":
            for k in val:
                self.params[k] = None      # remembered-or-not after homing is unspecified
            axes = list(axis_words) or list(AXES)
            for ax in axes:
                self.known[ax] = False
            info["kind"] = "G28"
        return info
