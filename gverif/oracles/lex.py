"""Independent G-code block lexer (written without reference to gscrib's
formatter).  A *block* is one line of output without its terminator:

    block   := [ word ( SP word )* ] [ SP? comment ]
    word    := LETTERS number
    number  := [+-]? ( DIGITS [ '.' DIGITS? ] | '.' DIGITS )

Exponents, nan, inf, empty numbers and anything else are rejected.  Comment
styles: to-end-of-line (';', '#', '//', '%' ... any opening symbol that is
not a delimiter pair) and delimited pairs.
"""

import re
from fractions import Fraction

PAIRS = {"(": ")", "[": "]", "{": "}", "<": ">", '"': '"', "'": "'", "/*": "*/"}

WORD_RE = re.compile(r"^([A-Za-z]+)([+-]?(?:[0-9]+(?:\.[0-9]*)?|\.[0-9]+))$")
LINE_BREAK_RE = re.compile(r"\r\n|\n|\r")


class LexError(Exception):
    pass


def split_physical_lines(text):
    """Split on every character sequence a controller treats as end of
    block (CR LF, LF, CR). Returns the list of blocks; a trailing terminator
    does not create an extra empty block."""
    parts = LINE_BREAK_RE.split(text)
    if parts and parts[-1] == "":
        parts.pop()
    return parts


def split_configured(text, ending):
    """Split a byte/str stream on the *configured* line ending; every line
    must be terminated exactly once.  Returns (blocks, ok)."""
    if text == "":
        return [], True
    if not text.endswith(ending):
        return text.split(ending), False
    blocks = text[: -len(ending)].split(ending)
    return blocks, True


def strip_comments(block, style):
    """Remove all comments from a block under the given opening symbol.
    Returns (executable_text, comments list, unterminated flag)."""
    style = style.strip()
    comments = []
    if style in PAIRS:
        close = PAIRS[style]
        out = []
        i = 0
        unterminated = False
        while True:
            j = block.find(style, i)
            if j < 0:
                out.append(block[i:])
                break
            out.append(block[i:j])
            k = block.find(close, j + len(style))
            if k < 0:
                comments.append(block[j:])
                unterminated = True
                break
            comments.append(block[j : k + len(close)])
            i = k + len(close)
        return "".join(out), comments, unterminated
    j = block.find(style)
    if j < 0:
        return block, comments, False
    comments.append(block[j:])
    return block[:j], comments, False


def parse_words(text):
    """Tokenise the executable part of a block. Returns list of
    (LETTERS_upper, number_string). Raises LexError."""
    words = []
    for tok in text.split():
        m = WORD_RE.match(tok)
        if not m:
            raise LexError(f"bad word {tok!r}")
        words.append((m.group(1).upper(), m.group(2)))
    return words


def parse_block(block, style=";"):
    """Strict parse used by C08: words, then at most one comment which must
    be last. Returns (words, comment or None)."""
    if "\n" in block or "\r" in block:
        raise LexError("line break inside block")
    exe, comments, unterminated = strip_comments(block, style)
    if unterminated:
        raise LexError("unterminated comment")
    if len(comments) > 1:
        raise LexError("more than one comment")
    if comments:
        c = comments[0]
        at = block.find(c)
        if block[at + len(c):].strip() != "":
            raise LexError("text after comment")
        exe = block[:at]
    return parse_words(exe), (comments[0] if comments else None)


def executable_words(block, style=";"):
    """Lenient: words that a controller would execute from this block
    (comments removed). Unparseable tokens are returned verbatim as
    ('?', token) so that differences are still visible."""
    exe, _, _ = strip_comments(block, style)
    out = []
    for tok in exe.split():
        m = WORD_RE.match(tok)
        out.append((m.group(1).upper(), m.group(2)) if m else ("?", tok))
    return out


def frac(number_string):
    return Fraction(number_string)
