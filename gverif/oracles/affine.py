"""Independent 4x4 affine algebra on plain Python floats (no numpy/scipy)."""

import math

I4 = ((1.0, 0.0, 0.0, 0.0), (0.0, 1.0, 0.0, 0.0), (0.0, 0.0, 1.0, 0.0), (0.0, 0.0, 0.0, 1.0))


def mul(a, b):
    return tuple(tuple(sum(a[i][k] * b[k][j] for k in range(4)) for j in range(4)) for i in range(4))


def translation(x, y, z):
    return ((1.0, 0.0, 0.0, float(x)), (0.0, 1.0, 0.0, float(y)), (0.0, 0.0, 1.0, float(z)), (0.0, 0.0, 0.0, 1.0))


def scaling(sx, sy, sz):
    return ((float(sx), 0.0, 0.0, 0.0), (0.0, float(sy), 0.0, 0.0), (0.0, 0.0, float(sz), 0.0), (0.0, 0.0, 0.0, 1.0))


def rotation(angle_deg, axis):
    a = math.radians(angle_deg)
    c, s = math.cos(a), math.sin(a)
    axis = axis.lower()
    if axis == "z":
        return ((c, -s, 0.0, 0.0), (s, c, 0.0, 0.0), (0.0, 0.0, 1.0, 0.0), (0.0, 0.0, 0.0, 1.0))
    if axis == "x":
        return ((1.0, 0.0, 0.0, 0.0), (0.0, c, -s, 0.0), (0.0, s, c, 0.0), (0.0, 0.0, 0.0, 1.0))
    if axis == "y":
        return ((c, 0.0, s, 0.0), (0.0, 1.0, 0.0, 0.0), (-s, 0.0, c, 0.0), (0.0, 0.0, 0.0, 1.0))
    raise ValueError(axis)


def reflection(normal):
    n = [float(v) for v in normal[:3]]
    while len(n) < 3:
        n.append(0.0)
    l = math.sqrt(sum(v * v for v in n))
    n = [v / l for v in n]
    rows = []
    for i in range(3):
        rows.append(tuple((1.0 if i == j else 0.0) - 2.0 * n[i] * n[j] for j in range(3)) + (0.0,))
    rows.append((0.0, 0.0, 0.0, 1.0))
    return tuple(rows)


PLANE_NORMAL = {"xy": (0, 0, 1), "yz": (1, 0, 0), "zx": (0, 1, 0)}


def scale_args(args):
    """gscrib's documented scale(*factors): one factor = uniform, two = (sx, sy, 1), three = (sx, sy, sz)."""
    if len(args) == 1:
        return scaling(args[0], args[0], args[0])
    if len(args) == 2:
        return scaling(args[0], args[1], 1.0)
    return scaling(args[0], args[1], args[2])


def chain(current, pivot, x):
    """New transform after applying x about the pivot to `current`."""
    px, py, pz = pivot
    return mul(mul(mul(translation(px, py, pz), x), translation(-px, -py, -pz)), current)


def apply(m, p):
    v = (float(p[0]), float(p[1]), float(p[2]), 1.0)
    r = [sum(m[i][k] * v[k] for k in range(4)) for i in range(4)]
    return (r[0], r[1], r[2])


def linear(m, d):
    """Image of a displacement (no translation part)."""
    return tuple(sum(m[i][k] * float(d[k]) for k in range(3)) for i in range(3))


def inverse(m):
    n = 4
    a = [list(map(float, m[i])) + [1.0 if i == j else 0.0 for j in range(n)] for i in range(n)]
    for col in range(n):
        piv = max(range(col, n), key=lambda r: abs(a[r][col]))
        if abs(a[piv][col]) < 1e-300:
            raise ZeroDivisionError("singular")
        a[col], a[piv] = a[piv], a[col]
        d = a[col][col]
        a[col] = [v / d for v in a[col]]
        for r in range(n):
            if r != col and a[r][col] != 0.0:
                f = a[r][col]
                a[r] = [v - f * w for v, w in zip(a[r], a[col])]
    return tuple(tuple(a[i][n:]) for i in range(n))


def rounded(m, nd=9):
    return tuple(tuple(0.0 if round(v, nd) == 0 else round(v, nd) for v in row) for row in m)
