"""Setup-time self test: the engines must be able to fail. Runs toy systems
with seeded bugs through each engine and checks that the bug is reported and
that the bug-free twin is not."""

import sys


def main():
    failures = []
    from .selftests import run_all
    for name, ok, detail in run_all():
        print(("ok   " if ok else "FAIL ") + name + (" - " + detail if detail else ""))
        if not ok:
            failures.append(name)
    if failures:
        print("selftest failed:", ", ".join(failures))
        return 1
    print("selftest passed")
    return 0
