#!/usr/bin/env python3
"""Regenerates /verif/MANIFEST.json from the table below and validates it."""
import json, os, sys

HERE = os.path.dirname(os.path.dirname(os.path.abspath(__file__)))
PY = "/venv/bin/python"

# id -> (engine, category, technique, text, note, design_ref)
CHECKS = {
 "C01": ("E1", "model_checking",
         "explicit-state BFS over API call histories of the real builder, lock-step independent G-code interpreter",
         "Every call history over the motion alphabet up to the reported depth is executed on the real GCodeBuilder/GCodeCore; "
         "after each call the emitted lines are run on an independent interpreter and compared with the tracked position and mode. "
         "Bounded-exhaustive in histories, finite in values.",
         "Trusted: my G0/G1/G90/G91/G92/G28/G38 interpreter and lexer; alphabets of values; depth bound; rounding budget of 0.5 unit per emitted word.",
         "DESIGN.md §5 C01"),
 "C02": ("E1", "model_checking",
         "explicit-state BFS to closure over the interlock API of the real builder; stream monitor + lock-step tool/coolant automaton",
         "The reachable modal state space under the interlock alphabet is finite and is explored until the frontier is empty; every transition is "
         "checked against the property verbatim (monitor on emitted lines) and against a reference automaton that says exactly which calls must be rejected and how.",
         "Trusted: my modal interpreter and the reference automaton (documented rejection conditions); value alphabets; canonical form drops position/temperatures.",
         "DESIGN.md §5 C02"),
 "C03": ("E1", "model_checking",
         "explicit-state BFS over builder histories per bounds configuration with boundary-value ladders; stream monitor on every emitted word",
         "Per bounds configuration all histories up to the depth bound over carriers x {min,max,mid,min-ulp,max+ulp,far,NaN} are executed on the real builder; every emitted line is "
         "checked by an independent monitor (reconstructed targets, F/S/T/temperature words) and clearly out-of-range requests must raise ValueError.",
         "Trusted: interpreter reconstruction of targets; builder = machine coordinates (or pure translation); bounds configurations and ladders listed in the evidence.",
         "DESIGN.md §5 C03"),
 "C04": ("E1", "model_checking",
         "bounded-exhaustive enumeration of transform compositions x motion histories on the real builder; lock-step independent affine model, per-word and end-to-end oracles",
         "Every composition of up to 2-3 transform operations followed by a synchronising move and up to 2-3 motion operations is executed on the real builder; every emitted motion word is compared with the "
         "image of the requested target/displacement under an independent pure-python affine model, omitted axes must not need to move, and the interpreter's machine position must equal transform(position).",
         "Trusted: pure-python affine model and interpreter; fixed transform parameter values; bypass moves excluded by contract.",
         "DESIGN.md §5 C04"),
 "C05": ("E1", "model_checking",
         "explicit-state BFS over builder states x a catalogue of calls failing at each validation step; snapshot equality + differential continuation on a twin",
         "From every state reached by the state-building alphabet (depth-bounded) every catalogued failing call is executed on the real builder; a call that raises must "
         "emit nothing, leave the public snapshot unchanged and leave later calls behaving as on a twin that never saw it.",
         "Trusted: completeness of the public snapshot (backed by the differential continuation); catalogue of failing calls; depth bound. Known finding: G90/G91 pair emitted by a rejected bypass move in relative mode.",
         "DESIGN.md §5 C05"),
 "C06": ("E1", "model_checking",
         "explicit-state BFS to closure per bounds configuration; shutdown calls checked from every reached state",
         "For each bounds configuration (incl. tool-power ranges excluding zero) the reachable modal state space is closed and tool_off/power_off/coolant_off/emergency_halt are "
         "executed from every state: must not raise, must emit exactly the documented codes in order, must leave the flags inactive.",
         "Trusted: modal interpreter; finite value alphabets chosen inside each configured range; listed bounds configurations.",
         "DESIGN.md §5 C06"),
 "C07": ("E1", "model_checking",
         "explicit-state BFS over histories of the whole builder API; independent modal interpreter over the emitted lines vs every reported GState field",
         "All histories up to the depth bound over ~95 state-tracked calls (numeric grid incl. 0) are executed on the real builder; after every call an independent modal "
         "interpreter of all lines emitted so far is compared with everything GState reports and with get_parameter for every remembered move word.",
         "Trusted: my modal interpreter (which S/F contexts count), the numeric grid, the depth bound; 'not demanded' fields listed in the evidence assumptions.",
         "DESIGN.md §5 C07"),
 "C14": ("E1", "model_checking",
         "explicit-state BFS over writer-registry histories on the real builder with real files; reference model of registry, per-writer byte logs and file sessions",
         "All histories (depth-bounded, states merged on registry + logs) of add_writer/remove_writer/emit/flush/teardown over path-based files, caller-owned text/binary file objects and recording writers "
         "run on the real GCodeBuilder with real files in a scratch directory; recorders are compared after every call, file contents after flush and teardown.",
         "Trusted: the reference model's reading of 'lines written so far' for a path-based file (per session: the writer truncates when it re-opens); local filesystem semantics.",
         "DESIGN.md §5 C14"),
 "C15": ("E2", "model_checking",
         "stateless deviation-bounded exploration of thread schedules and reply latencies of the real printcore threads under a deterministic baton scheduler, x enumerated fault sets",
         "The real printcore (harness, read, print and send threads) streams small jobs to a fake serial device driving a line-number/checksum firmware model; for every configuration (job, dialect, greeting, "
         "set of corrupted transmissions, default policy) every schedule within the stated number of deviations is run to completion and the wire log, the firmware's accepted log and termination are checked.",
         "Trusted: scheduler shims (thread switches only at scheduling points, never inside a source line), firmware model, time abstraction (sleeps / read time-outs as yields). Known findings: tail loss when the sender runs one line ahead.",
         "DESIGN.md §5 C15"),
 "C16": ("E2", "model_checking",
         "stateless deviation-bounded exploration of the real PrintrunWriter + printcore threads over a fake device, x enumerated device behaviours per statement and latency regimes",
         "Statement histories with every device behaviour (ok, status, report, error/alarm/!!, Marlin Error+ok, connection loss) at every position run on the real writer; at the return of every write() the oracle checks, from "
         "tagged firmware replies, that the statement's own acknowledgement was consumed, readings are available, errors surface in the right call, nothing hangs; all schedules within the deviation bound.",
         "Trusted: scheduler shims, tagged firmware model, time abstraction. Known findings: stale ok of the trailing handshake M110 (regime L) and of Marlin's ok after Error.",
         "DESIGN.md §5 C16"),
 "C17": ("E3", "exploration",
         "exhaustive enumeration of scripted socket behaviours (streams x chunk compositions x no-data-yet placements) through the real Device.readline",
         "Every byte string over {a,LF} up to the stated length, every fragmentation of it into chunks and every placement of up to two 'no data yet' answers, plus long-stream "
         "fragmentations around the 256-byte read size, is run through the real socket Device until READ_EOF and compared with the stream cut after each LF.",
         "Trusted: the scripted socket-file/selector model (read returns bytes | None | b''); finite stream alphabet and lengths; exhaustive only within that script space.",
         "DESIGN.md §5 C17"),
 "C18": ("E3", "exploration",
         "exhaustive enumeration of generated report lines and bounded report histories through the writer's receive callback, against a dict model",
         "Report lines are generated from structured fields (Marlin position/temperature, Grbl status/probe; field orders, decoys, leading ok) so expected readings are known "
         "without parsing; each is delivered to the real callback on a fresh writer and after a prior report; all sequences of <=3 (quick) / <=4 (thorough) reports from a 12-report basis are checked against a model.",
         "Trusted: the report generators' reading of the four families; value list; the callback is taken from the printcore object the writer creates.",
         "DESIGN.md §5 C18"),
 "C08": ("E3", "exploration",
         "exhaustive enumeration of numeric carriers x numbers x formatter configurations on the real builder; independent strict block grammar + exact rational comparison",
         "Every numeric code path of the builder is called with every number of a list built around the formatter's shortcuts (zero, ties, subnormals, 1e-7, 1e15, numpy scalars, bool) and "
         "with non-finite values, under every listed formatter configuration; output must be terminated lines of plain-decimal words plus at most one comment, each number within half a unit (+2 ulp).",
         "Trusted: my block grammar; the number list (values outside it are not covered); 2-ulp allowance for the double's own representation error.",
         "DESIGN.md §5 C08"),
 "C09": ("E3", "exploration",
         "exhaustive enumeration of a bounded string grammar x comment styles x text-accepting entry points on the real builder; independent comment stripper",
         "Every string of up to 2-4 tokens (line breaks, CR, every delimiter and its fragments, G-code payloads, non-ASCII, format specifiers) is passed to every API entry point that accepts text under every "
         "comment style; after stripping comments with an independent lexer the executable words and line count must equal those of the same call with an innocuous text.",
         "Trusted: lexer's notion of block end (CR LF/LF/CR) and of where a delimited comment ends (first closing delimiter); token alphabet.",
         "DESIGN.md §5 C09"),
 "C10": ("E3", "exploration",
         "exhaustive enumeration of a parameter grid of tracer requests (plus chained pairs) on the real builder; vertices rebuilt by an independent interpreter and checked against closed-form curve equations",
         "Every cell of a grid over start position, direction, distance mode, resolution and shape parameters is traced by the real PathTracer; the emitted polyline is rebuilt from the G1 lines and checked "
         "against the documented curve (constant/linearly varying radius, monotone bearing, expected sweep, z linear, control points in order, end on target). A finite grid over a continuum: exploration, not proof.",
         "Trusted: interpreter + closed-form oracles + tolerance model (accumulated output rounding); grid values; ill-conditioned requests (almost-closed arcs, resolution coarser than radius) are excluded.",
         "DESIGN.md §5 C10"),
 "C11": ("E1", "model_checking",
         "bounded-exhaustive enumeration of logical toolpath histories executed in lock-step on two real builders (absolute vs relative twin); differential vertex comparison",
         "All sequences of logical toolpath ops (moves, rapids, bypass moves, mode contexts, every tracer shape) up to the depth bound from three start positions run on an absolute-mode and a relative-mode builder; "
         "machine vertices rebuilt from both outputs must agree pairwise with the same counts and exception behaviour.",
         "Trusted: interpreter; exact logical positions carried between steps; tolerance = accumulated rounding of both twins; fixed shape parameters per op.",
         "DESIGN.md §5 C11"),
 "C12": ("E3", "exploration",
         "exhaustive enumeration of a radius x sweep x resolution grid (four decades of length/resolution) on the real tracer; segment-length statistics from the rebuilt polyline",
         "Each grid cell of constant-speed shapes is traced and the segment lengths measured on the rebuilt polyline: longest <= ~1 resolution, interior >= ~0.9, count proportional to closed-form length / resolution, "
         "sagitta bound; for every shape the counts at r, r/2, r/4 must not decrease; both unit systems.",
         "Trusted: closed-form path lengths; the numeric reading of 'about' (1.02 / 0.88); grid values.",
         "DESIGN.md §5 C12"),
 "C19": ("E3", "exploration",
         "exhaustive enumeration of small images / point sets x query lattices x lines x tolerances through the real heightmap classes; oracle from the statement only",
         "Every binary 4x4 image (quick: <=4 set pixels) plus a structured family (hot pixels, gradients, shallow ramps, non-square sizes, 8/16 bit) and every 4-6 point subset of a 3x3 lattice with heights from {0,1,10} are "
         "queried on half-pixel lattices and sampled along all pairs of lattice end points; stored samples, inside/outside behaviour, path geometry, z = get_depth_at and the drop rule are checked.",
         "Trusted: the oracle's reading of pixel-centre normalisation (/255, /65535); unfiltered walks obtained from the same API at tolerance 0 (raster) or from an auxiliary steep plane (sparse); finite families only.",
         "DESIGN.md §5 C19"),
 "C20": ("E1", "model_checking",
         "explicit-state BFS over hook-registration and motion histories on the real builder; recording hooks + independent interpreter + closed-form extrusion amounts",
         "All histories up to the depth bound of add/remove hook, move_hook contexts, moves, rapids, bypass moves, traced shapes, distance/extrusion mode switches and E resets run on the real builder; per emitted G1 "
         "each registered hook must have been called once, in order, with the machine's true origin/target; emitted and remembered words equal the last hook's return; E follows k x XY length.",
         "Trusted: interpreter positions as the 'true move'; the documented extrusion formula; rounding budget.",
         "DESIGN.md §5 C20"),
 "C13": ("E1", "model_checking",
         "explicit-state BFS over transformer histories with an independent pure-python 4x4 matrix model stepped in lock-step",
         "All histories of transform/state/context operations up to the depth bound are executed on the real CoordinateTransformer (inside GCodeCore for the context managers); the current, "
         "stacked and named transforms are compared with the model on probe points after every operation.",
         "Trusted: pure-python affine model; 3 probe points with relative tolerance 1e-8; parameter alphabet; depth bound.",
         "DESIGN.md §5 C13"),
}

PENDING_REASON = "check not built yet in this revision (planned, see DESIGN.md §5); not claimed until it runs"


def main():
    props = [json.loads(l)["id"] for l in open(os.path.join(HERE, "properties.jsonl"))]
    checks = []
    for pid in props:
        if pid not in CHECKS:
            continue
        eng, cat, tech, text, note, ref = CHECKS[pid]
        checks.append({
            "property_id": pid,
            "quick_cmd": f"{PY} -m gverif check {pid} --tier quick",
            "thorough_cmd": f"{PY} -m gverif check {pid} --tier thorough",
            "evidence_file": f"/verif/evidence/{pid}.json",
            "replay_cmd_template": f"{PY} -m gverif replay {{path}}",
            "engine": eng,
            "level_claimed": {"category": cat, "text": text, "design_ref": ref},
            "level_note": note,
            "technique": tech,
        })
    na = [{"property_id": p, "reason": NA.get(p, PENDING_REASON)} for p in props if p not in CHECKS]
    man = {
        "version": 1,
        "setup_cmd": f"{PY} -m gverif selftest",
        "hooks": {
            "guard": "GSCRIB_VERIF",
            "enable": "no source hooks: checks import gscrib from /repo's working tree (PYTHONPATH=/repo) and obtain control "
                      "through public APIs, module-attribute substitution and sys.monitoring; GSCRIB_VERIF=1 is exported by the runner but read by nothing in /repo",
            "baseline_off_cmd": "cd /repo && /venv/bin/python -m pytest -q -p no:cacheprovider --timeout=900",
            "source_commits": [],
            "add_only": True,
        },
        "engines": [
            {"name": "E1", "path": "gverif/engine_opseq.py", "serves_properties": [p for p in props if p in CHECKS and CHECKS[p][0] == "E1"],
             "kind_free_text": "explicit-state breadth-first search over call histories of the real implementation with lock-step reference models"},
            {"name": "E2", "path": "gverif/engine_sched.py", "serves_properties": [p for p in props if p in CHECKS and CHECKS[p][0] == "E2"],
             "kind_free_text": "stateless deviation-bounded exploration of thread schedules and device latencies of the real printcore threads under a deterministic baton scheduler"},
            {"name": "E3", "path": "gverif/engine_choice.py", "serves_properties": [p for p in props if p in CHECKS and CHECKS[p][0] == "E3"],
             "kind_free_text": "exhaustive enumeration of choice trees: environment answers and bounded input grammars/grids"},
        ],
        "checks": checks,
        "not_applicable": na,
        "notes": "All checks drive the real gscrib code from /repo's working tree; see DESIGN.md. Known findings: KNOWN_FINDINGS.txt.",
    }
    path = os.path.join(HERE, "MANIFEST.json")
    json.dump(man, open(path, "w"), indent=1)
    open(path, "a").write("\n")
    try:
        import jsonschema
        jsonschema.validate(man, json.load(open("/root/.vp/MANIFEST.schema.json")))
        print("MANIFEST.json valid;", len(checks), "checks,", len(na), "not claimed")
    except ImportError:
        print("jsonschema not available; not validated")

NA = {}

if __name__ == "__main__":
    main()
