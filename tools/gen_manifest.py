#!/usr/bin/env python3
"""Regenerates /verif/MANIFEST.json from the table below and validates it."""
import json, os, sys

HERE = os.path.dirname(os.path.dirname(os.path.abspath(__file__)))
PY = "/venv/bin/python"

# id -> (engine, category, technique, text, note, design_ref)
CHECKS = {
 "C01": ("E1", "model_checking",
         "explicit-state BFS over API call histories of the real builder, lock-step independent G-code interpreter",
         "Every call history over the motion alphabet up to the reported depth is executed on the real GCodeBuilder/GCodeCore; "
         "after each call the emitted lines are run on an independent interpreter and compared with the tracked position and mode. "
         "Bounded-exhaustive in histories, finite in values.",
         "Trusted: my G0/G1/G90/G91/G92/G28/G38 interpreter and lexer; alphabets of values; depth bound; rounding budget of 0.5 unit per emitted word.",
         "DESIGN.md §5 C01"),
}

PENDING_REASON = "check not built yet in this revision (planned, see DESIGN.md §5); not claimed until it runs"


def main():
    props = [json.loads(l)["id"] for l in open(os.path.join(HERE, "properties.jsonl"))]
    checks = []
    for pid in props:
        if pid not in CHECKS:
            continue
        eng, cat, tech, text, note, ref = CHECKS[pid]
        checks.append({
            "property_id": pid,
            "quick_cmd": f"{PY} -m gverif check {pid} --tier quick",
            "thorough_cmd": f"{PY} -m gverif check {pid} --tier thorough",
            "evidence_file": f"/verif/evidence/{pid}.json",
            "replay_cmd_template": f"{PY} -m gverif replay {{path}}",
            "engine": eng,
            "level_claimed": {"category": cat, "text": text, "design_ref": ref},
            "level_note": note,
            "technique": tech,
        })
    na = [{"property_id": p, "reason": NA.get(p, PENDING_REASON)} for p in props if p not in CHECKS]
    man = {
        "version": 1,
        "setup_cmd": f"{PY} -m gverif selftest",
        "hooks": {
            "guard": "GSCRIB_VERIF",
            "enable": "no source hooks: checks import gscrib from /repo's working tree (PYTHONPATH=/repo) and obtain control "
                      "through public APIs, module-attribute substitution and sys.monitoring; GSCRIB_VERIF=1 is exported by the runner but read by nothing in /repo",
            "baseline_off_cmd": "cd /repo && /venv/bin/python -m pytest -q -p no:cacheprovider --timeout=900",
            "source_commits": [],
            "add_only": True,
        },
        "engines": [
            {"name": "E1", "path": "gverif/engine_opseq.py", "serves_properties": [p for p in props if p in CHECKS and CHECKS[p][0] == "E1"],
             "kind_free_text": "explicit-state breadth-first search over call histories of the real implementation with lock-step reference models"},
            {"name": "E2", "path": "gverif/engine_sched.py", "serves_properties": [p for p in props if p in CHECKS and CHECKS[p][0] == "E2"],
             "kind_free_text": "stateless deviation-bounded exploration of thread schedules and device latencies of the real printcore threads under a deterministic baton scheduler"},
            {"name": "E3", "path": "gverif/engine_choice.py", "serves_properties": [p for p in props if p in CHECKS and CHECKS[p][0] == "E3"],
             "kind_free_text": "exhaustive enumeration of choice trees: environment answers and bounded input grammars/grids"},
        ],
        "checks": checks,
        "not_applicable": na,
        "notes": "All checks drive the real gscrib code from /repo's working tree; see DESIGN.md. Known findings: KNOWN_FINDINGS.txt.",
    }
    path = os.path.join(HERE, "MANIFEST.json")
    json.dump(man, open(path, "w"), indent=1)
    open(path, "a").write("\n")
    try:
        import jsonschema
        jsonschema.validate(man, json.load(open("/root/.vp/MANIFEST.schema.json")))
        print("MANIFEST.json valid;", len(checks), "checks,", len(na), "not claimed")
    except ImportError:
        print("jsonschema not available; not validated")

NA = {}

if __name__ == "__main__":
    main()
