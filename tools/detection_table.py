#!/usr/bin/env python3
"""Prints the markdown table of seeded changes (from /verif/seeded/*/meta.json) for DESIGN.md §11."""
import glob, json, os
SUMMARY = {
 "C01-a": ("move_absolute(): update/write moved out of the temporary absolute_mode() block", "relative mode + move_absolute from a known non-zero coordinate"),
 "C02-a": ("tool_change skips the interlock checks when the tool number is unchanged", "tool_change(n) ... tool_on/coolant_on ... tool_change(n) again"),
 "C03-a": ("feed-rate validation skipped when the value equals the current feed rate", "F equal to the tracked feed (incl. the initial 0) after bounds were set or tightened"),
 "C04-a": ("Point.combine: `o.z != o.z` - Z never auto-mentioned", "rotation about X/Y (or z-mixing reflection) + a move that does not mention Z"),
 "C05-a": ("S word pre-validated against the feed-rate bounds", "tool-power bounds set; S outside them but inside the feed-rate range"),
 "C06-a": ("is_tool_active derived from spin/power modes instead of the shared flag", "tool started through one API, stopped through the other (always for power_on + emergency_halt)"),
 "C07-a": ("_track_move_params tests truthiness instead of `is not None`", "F0 / S0 on a move while the tracked value is non-zero"),
 "C08-a": ("number(): `abs(n) < 10**-dp` shortcut to '0'", "values in [0.5, 1) x 10^-dp"),
 "C09-a": ("closing delimiter deleted instead of replaced by a space", "style `/*` and text like `**//` (deletion re-creates the delimiter)"),
 "C10-a": ("spline drops a control point equal to *any* earlier one", "control list revisiting an earlier point non-consecutively (closed loop, figure eight)"),
 "C11-a": ("thread() derives centre/turns from to_distance_mode(t)", "absolute mode, thread started away from the origin"),
 "C12-a": ("arc length `|angle| * hypot(r, height)`", "steep helical arcs with a sweep well below 1 rad"),
 "C13-a": ("_copy_state copies the stack list shallowly", "non-empty stack at context entry; body pops an old entry and transforms it"),
 "C14-a": ("teardown removes writers from the list it iterates", ">= 2 registered writers: every second one is neither disconnected nor forgotten"),
 "C15-a": ("_send drops the cached copy of line n-1 when line n is sent", "two lines in flight (Resend+ok) and the older one damaged again: KeyError, print thread dies"),
 "C16-a": ("_reported_params cleared per send instead of per message", "two reports carrying the same key between two sends (unsolicited status before the answer)"),
 "C17-a": ("keeps reading when a read returned a full 256-byte chunk", "a 256-byte chunk containing a newline followed by more data"),
 "C18-a": ("_update_param skips (and does not mark) unchanged values", "report whose first value equals the stored reading and that mentions the letter again"),
 "C19-a": ("raster _filter_points compares with the previous sample, not the previous kept one", "gentle ramp: every step below the tolerance, accumulated change above it"),
 "C20-a": ("_prepare_move/_prepare_rapid called before entering absolute_mode() in the bypass moves", "hook registered + relative mode + move_absolute from a non-zero position"),
 "C01-b": ("number() re-implemented with builtin formatting + rstrip('0')", "decimal_places=0 and a value whose rounded form ends in 0 (120 -> 'X12')"),
 "C02-b": ("_set_tool_power clears the tool-active flag when the power is 0", "tool on, then S0 on a move or set_tool_power(0), then any interlocked command"),
 "C03-b": ("_prepare_move formats the line from the hooks' result but returns the caller's params for validation", "bounds on F/S + a hook that returns a *new* mapping carrying an out-of-range word"),
 "C04-b": ("probe(): `{X: move.x, ..., **params}` - raw coordinates override the transformed ones", "any probe while a non-identity transform is active"),
 "C05-b": ("halt() stores the target temperature before the interlock check, rollback dropped", "tool or coolant on + halt(wait-for-*, S/R=new value)"),
 "C06-b": ("_set_power_mode uses the validating setter for the implicit 0 again", "tool-power bounds excluding zero + power_off()"),
 "C07-b": ("_update_axes tracks F/S from the merged last-value cache instead of the move's own params", "move with F/S, then a non-move command changing the modal value, then a move without that word"),
 "C08-b": ("number() memoises the formatted text per value; set_decimal_places does not clear it", "same value emitted before and after a run-time precision change on one builder"),
 "C09-b": ("closing delimiter cached on first use; set_comment_symbols does not reset it", "comment under one style, style switched at run time, text containing the new closing delimiter"),
 "C10-b": ("thread() axis computed with to_distance_mode((o+t)/2)", "absolute mode, thread started away from the XY origin"),
 "C11-b": ("parametric(): relative offsets taken from the curve's own first sample (np.diff with prepend)", "relative mode + trace.parametric with a function whose f(0) is not the current position"),
 "C12-b": ("sample count = length * int(10 / resolution)", "resolution above 10 units (large-format work)"),
 "C13-b": ("named restore copies only the matrix, not the pivot saved with the state", "named state saved under pivot P1, pivot changed on the live object, restore, then rotate/scale"),
 "C14-b": ("remove_writer() also disconnects the writer", "path-based file written, removed, re-added and written again (re-open truncates)"),
 "C15-b": ("gcoder append_lines records in-layer index i instead of len(layer)+i", "job with a z-hop that returns to an earlier layer height"),
 "C16-b": ("error branch sets the ack event before storing the device error", "error/alarm/!! reply + reader pre-empted right after set(): the error surfaces one call late or never"),
 "C17-b": ("_readline_buf keeps the remainder only if len(line) < len(chunk)", "line assembled from several reads whose completing chunk carries a short tail"),
 "C18-b": ("identical plain report lines are skipped; the ok-path does not update the remembered line", "plain report R, then an ok-prefixed report changing R's letters, then R again"),
 "C19-b": ("sparse sample_path filters unscaled heights and scales afterwards", "live sparse map with set_scale(s > 1) and a line whose scaled changes exceed the tolerance"),
 "C20-b": ("hooks all receive the original params; only the last result is kept", ">= 2 hooks and a non-last hook returning a new mapping"),
 "C01-c": ("_get_statement memoises parameter-less statements keyed by the enum member (DistanceMode.RELATIVE == ExtrusionMode.RELATIVE)", "set_extrusion_mode(m) and set_distance_mode(m) on the same builder: the second emits the first one's code"),
 "C02-c": ("tool_off()/power_off() skip writing M05 when their own mode was already OFF but still clear the shared flag", "tool started through one API and stopped through the other, then a halt/tool change"),
 "C03-c": ("probe() validates the caller's raw point instead of the absolute target", "relative mode, position near a limit, probe offset inside the box but target outside"),
 "C04-c": ("scale(): diagonal built as (scale*3)[:3]: two factors scale Z by the X factor", "scale(sx, sy) with exactly two factors and a move with non-zero z"),
 "C05-c": ("pre-validation of F/S skipped when the word repeats the remembered parameter value", "value remembered, bounds tightened at run time (or remembered through set_axis), same value again"),
 "C06-c": ("emergency_halt emits one comment per message line (none for an empty message)", "emergency_halt('')"),
 "C07-c": ("S word pre-validated with the feed-rate validator", "tool-power bounds + a tracked move with S outside them: state changes although nothing is emitted"),
 "C08-c": ("parameters(): non-axis words formatted with str() unless int/float", "numpy float32/int64 scalars in E/F/P... words (tiny, non-finite or with more decimals than configured)"),
 "C09-c": ("line breaks only flattened when the text has more than one line", "text ending in a single trailing line break under a delimited comment style"),
 "C10-c": ("arc z interpolated from the centre's z instead of the start's", "centre argument with a non-zero third component"),
 "C11-c": ("absolute_mode()/relative_mode() lose their try/finally", "body of a mode context raises, caller catches and carries on"),
 "C12-c": ("_filter_segments tolerance floored at 1e-3", "resolution below ~0.005 units (inch work)"),
 "C13-c": ("named_transform() implemented with save_state()/restore_state() instead of a private snapshot", "body leaves the stack unbalanced (save then raise, or more pops than pushes)"),
 "C14-c": ("FileWriter.flush() only flushes files it opened itself", "caller-owned buffered file object + flush() + reading through another handle"),
 "C16-c": ("ack event cleared after the statement is handed to printcore", "reply processed between send() and clear(): write() hangs"),
 "C17-c": ("at end of stream only the last buffered chunk is delivered as the tail", "unterminated tail arriving in two or more reads"),
 "C18-c": ("error classification by substring instead of prefix", "Grbl status report in state Alarm"),
 "C19-c": ("raster _interpolate_line evaluates the spline directly (no outside-the-image zero)", "sample_path line with a pixel outside an image with non-zero border"),
 "C20-c": ("hooks get to_absolute(point.resolve())", "hook + absolute mode + move omitting an axis whose coordinate is non-zero"),
 "C15-c": ("startprint(): `clear = False` moved after the M110 reset is written", "the M110's ok handled by the reader before startprint reaches the assignment (fast device + one pre-emption)"),
 "C01-d1": ("_update_axes: F/S validation merged after the position is stored", "motion call rejected for its F/S word, caller carries on: tracked position was never emitted"),
 "C01-d2": ("rapid(): write() before _update_axes()", "axes bounds + rapid to a target outside: G0 emitted but not tracked"),
 "C02-d1": ("code table: BedTemperature.KELVIN mapped to M190", "set_temperature_units('kelvin') + tool or coolant on + set_bed_temperature"),
 "C02-d2": ("_set_spin_mode stores flag/mode before the (validating) power setter", "tool-power bounds with lo > 0, tool_on inside them, then tool_off/emergency_halt"),
 "C03-d1": ("_get_user_param no longer upper-cases keyword names", "temperature bound + halt(wait-for-*, s=...) with a lower-case keyword"),
 "C03-d2": ("up-front _validate_axes removed from _update_axes (core commits before the state rejects)", "axes box, relative mode, a rejected move, then relative moves back: machine driven outside the box"),
 "C04-d1": ("pivot translation matrix built from point[:2] (pivot z dropped)", "set_pivot with z != 0 and a transform involving Z"),
 "C04-d2": ("restore_state(name) installs the stored object (alias)", "save n, restore n, chain, restore n again, move (C13's domain)"),
 "C05-d1": ("GState._set_axes validates axes.resolve() (unknown treated as 0)", "axes box excluding 0 + a command that leaves an axis unknown (auto_home, probe, single-axis set_axis)"),
 "C05-d2": ("set_chamber_temperature stores the target before building the statement", "set_chamber_temperature(nan|inf) without chamber bounds"),
 "C06-d1": ("emergency_halt ends with self.stop()/self.pause() (reset not forwarded)", "emergency_halt(msg, reset=True) ends with M02"),
 "C06-d2": ("new interlock: coolant_off refused while the tool runs", "coolant on + tool on + coolant_off()"),
 "C07-d1": ("_get_user_param no longer upper-cases keyword names", "halt(wait-for-*, s=...) lower-case: emitted but target temperature not tracked"),
 "C07-d2": ("_set_tool_number assigns before the interlock checks", "tool or coolant on + rejected tool_change: state reports the new tool"),
 "C08-d1": ("closing delimiter deleted instead of replaced (same as C09-a)", "style /* and text with nested closing delimiter: two comments on a line"),
 "C08-d2": ("number() via f-string + rstrip (same idea as C01-b)", "decimal_places=0"),
 "C09-d1": ("comment(message, *args): only message goes through format.comment()", "comment with extra args under a delimited style or with a line break in an arg"),
 "C09-d2": ("line breaks flattened with replace('\\r\\n').replace('\\n')", "text with a lone CR"),
 "C10-d1": ("helix base angle computed with modulo instead of enforce()", "target exactly on the start ray (angular difference 0): one turn missing"),
 "C10-d2": ("arc_radius chord length includes the Z displacement", "arc_radius with a target that also changes Z"),
}
rows = []
for mp in sorted(glob.glob("/verif/seeded/*/meta.json")):
    m = json.load(open(mp))
    name = m["name"]
    what, needs = SUMMARY.get(name, (m.get("summary", ""), m.get("needs_to_manifest", "")))
    det = []
    for c, v in m.get("checks", {}).items():
        sig = next((l.split("sig=")[1].split(" ")[0] for l in v.get("first_lines", []) if "sig=" in l and not l.startswith("KNOWN")), "")
        det.append(f"{c} {v['tier']}: {'**caught**' if v['detected'] else 'missed'}" + (f" (`{sig}`)" if sig and v["detected"] else ""))
    hist = m.get("history", [])
    first_missed = any(h and h.get("checks") and not all(v.get("detected") for v in h["checks"].values()) for h in hist)
    note = " (missed by the first version of the check; check strengthened)" if first_missed else ""
    tests = m.get("tests_with_change", {}).get("summary", "").split(" in ")[0]
    rows.append(f"| {name} | {m['property']} | {what} | {needs} | {tests or 'n/a'} | {'; '.join(det)}{note} |")
print("| seed | property | change | needs, to manifest | pinned suite with change | checks |")
print("|---|---|---|---|---|---|")
print("\n".join(rows))
