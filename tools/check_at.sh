#!/bin/bash
# usage: check_at.sh <commit> <PID> [tier]   - run a check against a scratch worktree of /repo at <commit>
set -u
C=$1; P=$2; T=${3:-quick}
WT=$(mktemp -d /tmp/gv-at-XXXXXX); rmdir $WT
git -C /repo worktree add --detach -q $WT $C || exit 3
EV=$(mktemp -d /tmp/gv-ev-XXXXXX)
( cd /verif && env -u GVERIF_PINNED GVERIF_REPO=$WT GVERIF_EVIDENCE_DIR=$EV GVERIF_REPLAY_DIR=$EV /venv/bin/python -m gverif check $P --tier $T 2>&1 | grep -v conda | grep "VIOLATION\|sig=\|KNOWN\|HARNESS\|^property" | cut -c1-330 | head -${LINES_MAX:-14} )
git -C /repo worktree remove --force $WT; rm -rf $WT $EV
