#!/usr/bin/env python3
import subprocess, re
p = "/verif/DESIGN.md"
s = open(p).read()
table = subprocess.check_output(["python3", "/verif/tools/detection_table.py"], text=True)
begin, end = "<!-- seeded-table:begin -->", "<!-- seeded-table:end -->"
block = f"{begin}\n{table}{end}"
if begin in s:
    s = s[:s.index(begin)] + block + s[s.index(end) + len(end):]
else:
    s += "\n" + block + "\n"
open(p, "w").write(s)
