#!/usr/bin/env python3
"""Apply a patch in a scratch worktree of /repo (outside /repo and /verif), optionally run the pinned
suite there, run the named checks against it (GVERIF_REPO), and remove the worktree.

usage: mutant.py <patch.diff> [--tests] [--tier quick|thorough] C01 C05 ...
Evidence files are preserved (GVERIF_EVIDENCE_DIR points to a temp dir)."""
import os, subprocess, sys, tempfile, shutil, json

def main():
    args = sys.argv[1:]
    patch = os.path.abspath(args.pop(0))
    tests = "--tests" in args
    if tests: args.remove("--tests")
    tier = "quick"
    if "--tier" in args:
        i = args.index("--tier"); tier = args[i+1]; del args[i:i+2]
    props = args
    wt = tempfile.mkdtemp(prefix="gv-mut-", dir="/tmp")
    os.rmdir(wt)
    subprocess.run(["git", "-C", "/repo", "worktree", "add", "--detach", "-q", wt, "HEAD"], check=True)
    out = {"patch": patch, "tests": None, "checks": {}}
    try:
        r = subprocess.run(["git", "-C", wt, "apply", patch])
        if r.returncode != 0:
            print("PATCH DOES NOT APPLY"); return 3
        if tests:
            r = subprocess.run(["/venv/bin/python", "-m", "pytest", "-q", "-x", "-p", "no:cacheprovider", "--timeout=900",
                                "--deselect", "tests/test_file_writer.py::test_write_to_invalid_path",
                                "--deselect", "tests/test_printrun_core.py::TestConnect::test_bad_ports"],
                               cwd=wt, capture_output=True, text=True, env={**os.environ, "PYTHONPATH": wt})
            tail = r.stdout.strip().splitlines()[-1] if r.stdout.strip() else ""
            out["tests"] = {"rc": r.returncode, "tail": tail}
            print("tests:", r.returncode, tail)
        evdir = tempfile.mkdtemp(prefix="gv-ev-", dir="/tmp")
        for p in props:
            env = {**os.environ, "GVERIF_REPO": wt, "GVERIF_EVIDENCE_DIR": evdir, "GVERIF_REPLAY_DIR": evdir}
            env.pop("GVERIF_PINNED", None)
            r = subprocess.run(["/venv/bin/python", "-m", "gverif", "check", p, "--tier", tier],
                               cwd="/verif", capture_output=True, text=True, env=env)
            lines = [l for l in r.stdout.splitlines() if l.startswith(("VIOLATION", "  sig=", "KNOWN", "HARNESS", "property="))]
            out["checks"][p] = {"rc": r.returncode}
            print(f"--- {p}: rc={r.returncode}")
            for l in lines[:8]: print("   ", l[:400])
            if r.returncode not in (0, 1):
                print(r.stdout[-1500:]); print(r.stderr[-1500:])
        shutil.rmtree(evdir, ignore_errors=True)
    finally:
        subprocess.run(["git", "-C", "/repo", "worktree", "remove", "--force", wt])
        shutil.rmtree(wt, ignore_errors=True)
    return 0

if __name__ == "__main__":
    sys.exit(main())
