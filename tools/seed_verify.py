#!/usr/bin/env python3
"""Verify a seeded change delivered by a sub-agent and run checks against it.

usage: seed_verify.py <seed-dir> <name> <PROPERTY> [--tier quick|thorough] [--no-tests] [extra check ids...]
 - scratch worktree of /repo HEAD under /tmp (removed afterwards)
 - demo.py on the clean tree must exit 0; with patch applied the pinned suite must pass and demo.py must exit 1
 - runs the property's check (and extra ones) against the patched tree via GVERIF_REPO
 - stores patch.diff, demo.py, notes.md and meta.json under /verif/seeded/<name>/
"""
import json, os, shutil, subprocess, sys, tempfile, time

PY = "/venv/bin/python"
DESEL = ["--deselect", "tests/test_file_writer.py::test_write_to_invalid_path",
         "--deselect", "tests/test_printrun_core.py::TestConnect::test_bad_ports"]

def run(cmd, cwd, env=None, timeout=3600):
    r = subprocess.run(cmd, cwd=cwd, env=env, capture_output=True, text=True, timeout=timeout)
    return r.returncode, r.stdout, r.stderr

def main():
    a = sys.argv[1:]
    seeddir, name, pid = a[0], a[1], a[2]
    rest = a[3:]
    tier = "quick"
    if "--tier" in rest:
        i = rest.index("--tier"); tier = rest[i + 1]; del rest[i:i + 2]
    do_tests = "--no-tests" not in rest
    rest = [x for x in rest if x != "--no-tests"]
    checks = [pid] + rest
    patch = os.path.join(seeddir, "patch.diff")
    demo = os.path.join(seeddir, "demo.py")
    wt = tempfile.mkdtemp(prefix="gv-seed-", dir="/tmp"); os.rmdir(wt)
    subprocess.run(["git", "-C", "/repo", "worktree", "add", "--detach", "-q", wt, "HEAD"], check=True)
    meta = {"name": name, "property": pid, "repo_head": subprocess.check_output(["git", "-C", "/repo", "rev-parse", "--short", "HEAD"], text=True).strip(),
            "verified_at": time.strftime("%Y-%m-%d %H:%M:%S")}
    env = {**os.environ, "PYTHONPATH": wt}
    try:
        shutil.copy(demo, os.path.join(wt, "demo.py"))
        rc0, o, e = run([PY, "demo.py"], wt, env)
        meta["demo_on_clean_tree_rc"] = rc0
        r = subprocess.run(["git", "-C", wt, "apply", patch])
        if r.returncode != 0:
            r = subprocess.run(["git", "-C", wt, "apply", "-3", patch])
        meta["patch_applies"] = r.returncode == 0
        if not meta["patch_applies"]:
            print(json.dumps(meta, indent=1)); return 3
        rc1, o, e = run([PY, "demo.py"], wt, env)
        meta["demo_with_change_rc"] = rc1
        meta["demo_with_change_tail"] = (o + e).strip().splitlines()[-3:]
        if do_tests:
            rct, o, e = run([PY, "-m", "pytest", "-q", "-p", "no:cacheprovider", "--timeout=900"] + DESEL, wt, env)
            meta["tests_with_change"] = {"rc": rct, "summary": (o.strip().splitlines() or [""])[-1]}
        meta["checks"] = {}
        for c in checks:
            evdir = tempfile.mkdtemp(prefix="gv-ev-", dir="/tmp")
            cenv = {**os.environ, "GVERIF_REPO": wt, "GVERIF_EVIDENCE_DIR": evdir, "GVERIF_REPLAY_DIR": evdir}
            cenv.pop("GVERIF_PINNED", None)
            t = time.time()
            rc, o, e = run([PY, "-m", "gverif", "check", c, "--tier", tier], "/verif", cenv)
            lines = [l for l in o.splitlines() if l.startswith(("VIOLATION", "  sig=", "KNOWN", "HARNESS"))]
            meta["checks"][c] = {"tier": tier, "rc": rc, "detected": rc == 1, "wall_s": round(time.time() - t, 1),
                                 "first_lines": [l[:300] for l in lines[:4]]}
            if rc not in (0, 1):
                meta["checks"][c]["stderr_tail"] = e[-800:]
            shutil.rmtree(evdir, ignore_errors=True)
    finally:
        subprocess.run(["git", "-C", "/repo", "worktree", "remove", "--force", wt])
        shutil.rmtree(wt, ignore_errors=True)
    ok = meta.get("demo_on_clean_tree_rc") == 0 and meta.get("demo_with_change_rc") not in (0, None) and \
        (not do_tests or meta["tests_with_change"]["rc"] == 0)
    meta["seed_valid"] = ok
    out = os.path.join("/verif/seeded", name)
    os.makedirs(out, exist_ok=True)
    for f in ("patch.diff", "demo.py", "notes.md"):
        if os.path.exists(os.path.join(seeddir, f)):
            shutil.copy(os.path.join(seeddir, f), os.path.join(out, f))
    old = {}
    mp = os.path.join(out, "meta.json")
    if os.path.exists(mp):
        old = json.load(open(mp))
        for k in ("needs_to_manifest", "summary"):
            if k in old: meta[k] = old[k]
        hist = old.get("history", [])
        hist.append({k: old.get(k) for k in ("verified_at", "repo_head", "checks")})
        meta["history"] = hist[-5:]
    json.dump(meta, open(mp, "w"), indent=1)
    print(json.dumps({k: meta[k] for k in meta if k != "history"}, indent=1))
    return 0

if __name__ == "__main__":
    sys.exit(main())
