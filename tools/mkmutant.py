#!/usr/bin/env python3
"""mkmutant.py <out.diff> <repo-relative file> <old text> <new text>  - build a unified diff against /repo HEAD."""
import subprocess, sys, tempfile, os
out, rel, old, new = sys.argv[1:5]
src = subprocess.check_output(["git", "-C", "/repo", "show", f"HEAD:{rel}"], text=True)
old = old.encode().decode("unicode-escape"); new = new.encode().decode("unicode-escape")
assert src.count(old) == 1, f"old text occurs {src.count(old)} times"
d = tempfile.mkdtemp()
os.makedirs(os.path.join(d, "a", os.path.dirname(rel)), exist_ok=True); os.makedirs(os.path.join(d, "b", os.path.dirname(rel)), exist_ok=True)
open(os.path.join(d, "a", rel), "w").write(src); open(os.path.join(d, "b", rel), "w").write(src.replace(old, new))
r = subprocess.run(["diff", "-u", os.path.join("a", rel), os.path.join("b", rel)], cwd=d, capture_output=True, text=True)
open(out, "w").write(r.stdout)
print(r.stdout)
