#!/bin/bash
# usage: verify_batch.sh name:PID[:extra checks] ...
for s in "$@"; do IFS=: read n p extra <<< "$s"; echo "== $n"; timeout 2400 python3 /verif/tools/seed_verify.py /tmp/seeds/$n $n $p $extra 2>&1 | python3 -c "
import sys,json
t=sys.stdin.read()
try:
    i=t.index('{'); m=json.loads(t[i:])
    print('valid',m['seed_valid'],'| tests',m.get('tests_with_change',{}).get('summary','')[:40],'| demo',m['demo_on_clean_tree_rc'],m.get('demo_with_change_rc'))
    for k,v in m['checks'].items(): print('  ',k,'detected',v['detected'],v['wall_s'],[l[:220] for l in v['first_lines'] if not l.startswith('KNOWN')][:2])
except Exception as e: print('ERR',e,t[-500:])
"; done 2>&1 | grep -v conda
