#!/bin/bash
# usage: run_all.sh <tier> [ids...]  - runs checks sequentially, prints one summary line each
T=${1:-quick}; shift
IDS=${@:-C01 C02 C03 C04 C05 C06 C07 C08 C09 C10 C11 C12 C13 C14 C15 C16 C17 C18 C19 C20}
for p in $IDS; do
  s=$(date +%s)
  out=$(/venv/bin/python -m gverif check $p --tier $T 2>&1); rc=$?
  e=$(date +%s)
  echo "$p rc=$rc wall=$((e-s))s $(echo "$out" | grep -c '^KNOWN') known; $(echo "$out" | grep '^VIOLATION\|HARNESS' | head -3 | tr '\n' ' ')"
  echo "$out" | grep "sig=" | grep -v "^KNOWN" | head -3 | cut -c1-300
done
